"""C11 - Stewart platform inverse Jacobian is d(legs)/d(twist); leg forces balance the load.

Decided statically:
  R11.1 row layout of inverseJacobian: row i = [q_i x n_i ; n_i] - moment part first, matching the
        [omega; v] twist order and the [moment; force] wrench order - with q_i the BOTTOM joint and
        n_i = normalised (top joint - bottom joint) of the SAME leg i, six legs, matrix returned transposed
        into rows.
  R11.2 sumActuatorWrenches: for each of the six legs one wrench whose application point, direction and
        magnitude belong to the same leg i (point on the leg, direction along it), accumulated.
  R11.3 carryMassCalc accumulation sets: what is handed to staticForces is exactly {applied wrench, top-plate
        weight at the top pose, six shaft weights at getActuatorLoc(i, 't')}; motor and bottom-plate weights
        are added only afterwards.
  R11.4 space / body routing through Robot (forward = J^T-free inverse-Jacobian route: jacobian() =
        pinv(inverseJacobian())), and the query restores the poses it started with (C10 R10.4).
Not decided: derivative of leg lengths, equilibrium to 1e-8 (numerical).
"""
import ast

from ..engine.model import AnalysisError, src, walk_own
from ..engine.flow import Flow
from ..engine.inline import Inliner, norm_text
from ..engine.typestate import EventDomain
from .spstate import SPM

ROBOT = 'basic_robotics.kinematics.robot_model'


def check(model, rep):
    rep.extra['explanation'] = (
        'Structural rules: Plucker row layout and per-leg index agreement of the inverse Jacobian, per-leg agreement and counting '
        'in the wrench summation, reaching-contribution sets of the mass-carrying load (what is added before / after the static '
        'solve), and the Robot routing between jacobian / inverseJacobian.')
    sp = model.cls(SPM, 'SP')
    ij = sp.methods.get('inverseJacobian')
    if ij is None:
        raise AnalysisError('anchor vanished: SP.inverseJacobian')
    rep.rule('R11.1', 'row i = [q_i x n_i ; n_i], q_i = bottom joint i, n_i = unit(top joint i - bottom joint i)')
    from ..engine import tv as _tv
    tp_, bp_, pr_ = ij.params[1], ij.params[2], ij.params[3]
    ok, why = _tv.fi_matches_spec(model, ij, """
        def inverseJacobian(self, %s=None, %s=None, %s=True):
            %s, %s = self._bottomTopCheck(%s, %s)
            saved_bottom = self.getBottomT()
            saved_top = self.getTopT()
            self.IK(top_plate_pos = %s, bottom_plate_pos = %s, protect = %s)
            rows = np.zeros((6, 6))
            for i in range(6):
                n = fmr.Normalize(self._top_joints_space[:, i] - self._bottom_joints_space[:, i])
                q = self._bottom_joints_space[:, i]
                rows[i, 0:3] = np.cross(q, n)
                rows[i, 3:6] = n
            self.IK(top_plate_pos = saved_top, bottom_plate_pos = saved_bottom, protect = %s)
            return rows
        """ % (tp_, bp_, pr_, bp_, tp_, bp_, tp_, tp_, bp_, pr_, pr_), cell_shape=(6, 6))
    rep.ob('R11.1', ij, 'row i = [q_i x n_i ; n_i] with q_i = bottom joint i, n_i = unit(top_i - bottom_i), six legs; poses saved, IK(requested) '
           '... rows ... IK(saved)', ok, 'inverseJacobian is not the Plucker-row construction inside the save / evaluate / restore bracket: ' + why)

    # ---------------------------------------------------------------- R11.2
    rep.rule('R11.2', 'sumActuatorWrenches: one wrench per leg with point, direction and magnitude of the same leg')
    sw = sp.methods.get('sumActuatorWrenches')
    loops = [n for n in sw.body() if isinstance(n, ast.For)]
    ok = False
    if len(loops) == 1:
        lp = loops[0]
        i = lp.target.id
        ilw = Inliner(sw)
        R = {i: 'I'}
        aug = [n for n in lp.body if isinstance(n, ast.AugAssign)] + \
              [n for n in lp.body if isinstance(n, ast.Assign) and isinstance(n.value, ast.BinOp) and isinstance(n.value.op, ast.Add) and src(n.targets[0]) == src(n.value.left)]
        rets_w = [n for n in walk_own(sw.node) if isinstance(n, ast.Return) and n.value is not None]
        accn = src(rets_w[0].value) if len(rets_w) == 1 else None
        term = None
        if len(aug) == 1:
            term = aug[0].value if isinstance(aug[0], ast.AugAssign) else aug[0].value.right
        tt = ilw.tree(term, roles=R) if term is not None else None
        uv = '?'
        ok_dir = ok_w = False
        fp = sw.params[1]
        if isinstance(tt, ast.Call) and norm_text(tt.func) == 'fsr.makeWrench' and len(tt.args) == 3:
            pt, mag, uv = (norm_text(x) for x in tt.args)
            ok_dir = uv in ('fmr.Normalize(self._bottom_joints_space[:,I]-self._top_joints_space[:,I])',
                            'fmr.Normalize(self._top_joints_space[:,I]-self._bottom_joints_space[:,I])')
            tgt = src(aug[0].target if isinstance(aug[0], ast.AugAssign) else aug[0].targets[0])
            ok_w = tgt == accn and pt in ('self._top_joints_space[:,I]', 'self._bottom_joints_space[:,I]') and mag in ('float(%s[I])' % fp, '%s[I]' % fp)
        rep.ob('R11.2', sw, 'direction along leg i', ok_dir, 'direction is %s' % uv, line=lp.lineno)
        rep.ob('R11.2', sw, 'wrench += makeWrench(joint of leg i, force i, direction i)', ok_w, 'accumulation is %s' % (src(aug[0]) if aug else '?'), line=lp.lineno)
        rep.ob('R11.2', sw, 'six legs', src(lp.iter).replace(' ', '') == 'range(6)', 'loop ranges over %s' % src(lp.iter), line=lp.lineno)
    else:
        rep.ob('R11.2', sw, 'leg loop', False, 'sumActuatorWrenches loop not recognised')

    # ---------------------------------------------------------------- R11.3
    rep.rule('R11.3', 'carryMassCalc: load handed to staticForces = applied + top plate weight (at the top pose) + 6 shaft weights (at their cg); '
                      'motor / bottom plate weights only afterwards')
    cm = sp.methods.get('carryMassCalc')

    class Acc(EventDomain):
        """marks = (frozenset of contributions added to `wrench` so far, solved?)"""

        def _contrib(s, e):
            e = ilc.text(e)
            if e == 'fsr.makeWrench(self.getTopT(),self._top_plate_mass,self.grav)':
                return 'top-plate@top'
            if e == "fsr.makeWrench(self.getActuatorLoc(_0,'t'),self._act_shaft_mass,self.grav)":
                return 'shaft_i@cg'
            if e == "fsr.makeWrench(self.getActuatorLoc(_0,'b'),self._act_motor_mass,self.grav)":
                return 'motor_i@cg'
            if e == 'fsr.makeWrench(self.getBottomT(),self._bottom_plate_mass,self.grav)':
                return 'bottom-plate@bottom'
            return 'other:' + e[:50]

        def on_store(s, target, value, stmt, state):
            (got, solved), consts = state
            if isinstance(target, ast.Name) and target.id == WR:
                if isinstance(stmt, ast.AugAssign):
                    got = got | {(s._contrib(stmt.value), s.in_loop)}
                elif value is not None and isinstance(value, ast.BinOp) and isinstance(value.op, ast.Add) and src(value.left) == WR:
                    got = got | {(s._contrib(value.right), s.in_loop)}
                elif value is not None and src(value) == cm.params[1] + '.copy()':
                    got = frozenset({('applied', None)})
                else:
                    got = got | {('other:' + src(stmt)[:40], None)}
            return (((got, solved), consts),)

        in_loop = None

        def loop_may_skip(s, node, state):
            return not src(node.iter).replace(' ', '').startswith('range(6')

        def enter_loop(s, node, state):
            s.in_loop = src(node.iter).replace(' ', '')
            return super().enter_loop(node, state)

        def on_call(s, call, state):
            (got, solved), consts = state
            if src(call.func) == 'self.staticForces' and call.args and src(call.args[0]) == WR:
                seen.append(got)
                solved = True
            return (((got, solved), consts),)
    seen = []
    ilc = Inliner(cm)
    sf = [c for c in walk_own(cm.node) if isinstance(c, ast.Call) and src(c.func) == 'self.staticForces' and c.args and isinstance(c.args[0], ast.Name)]
    WR = sf[0].args[0].id if sf else '?'
    exits = Flow(Acc()).run(cm.body(), {((frozenset(), False), frozenset())})
    want = {('applied', None), ('top-plate@top', None), ('shaft_i@cg', 'range(6)')}
    ok = bool(seen) and all({(c, l) for (c, l) in g} == want for g in seen)
    rep.ob('R11.3', cm, 'load on the legs = applied + top plate + six shafts', ok,
           'wrench handed to staticForces accumulates %s' % [sorted(g, key=str) for g in seen][:2])
    after = set()
    for e in exits:
        if e.kind in ('return', 'fall'):
            after |= {c for (c, l) in e.state[0][0]}
    rep.ob('R11.3', cm, 'motor and bottom-plate weights only in the returned total', {'motor_i@cg', 'bottom-plate@bottom'} <= after and
           not any(c.startswith('other') for c in after), 'returned total accumulates %s' % sorted(after))
    rets = [n for n in walk_own(cm.node) if isinstance(n, ast.Return)]
    got_r = ilc.text(rets[0].value, roles={WR: 'W'}) if len(rets) == 1 else '?'
    rep.ob('R11.3', cm, 'returns (leg forces, total wrench)', got_r.replace('(', '').replace(')', '').startswith('self.staticForcesW,') and got_r.endswith(',W)'), 'returns %s' % got_r)

    # ---------------------------------------------------------------- R11.4
    rep.rule('R11.4', 'Robot routing: jacobian() = pinv(inverseJacobian()), statics through jacobian / jacobianBody (C06 table); SP defines inverseJacobian')
    robot = model.cls(ROBOT, 'Robot')
    j = robot.methods.get('jacobian')
    r = [n for n in walk_own(j.node) if isinstance(n, ast.Return)]
    ok = len(r) == 1 and src(r[0].value).replace(' ', '') == 'np.linalg.pinv(self.inverseJacobian(*args,**kwargs))'
    rep.ob('R11.4', j, 'jacobian = pinv(inverseJacobian(...)) with the same arguments', ok, 'Robot.jacobian is %s' % (src(r[0].value) if r else '?'))
    from .common_ops import pinv_cutoff
    for c in [c for fi_ in (j,) + tuple(sp.methods[m] for m in ('staticForces', 'staticForcesBody', 'carryMassCalc') if m in sp.methods)
              for c in walk_own(fi_.node) if isinstance(c, ast.Call) and src(c.func).endswith('pinv')]:
        cut = pinv_cutoff(c)
        rep.ob('R11.4', j, 'pseudo-inverse without truncation: ' + src(c)[:60], cut is None,
               'singular values below %s of the largest are discarded: near-singular but full-rank platforms get a wrong Jacobian' % cut, line=c.lineno)
    rep.ob('R11.4', sp.module.relpath, 'SP overrides inverseJacobian and not jacobian', 'inverseJacobian' in sp.methods and 'jacobian' not in sp.methods,
           'SP must define exactly one of jacobian / inverseJacobian (the other is derived by pseudo-inverse)', qualname='SP', line=0)
    from .c06 import check as _c06  # noqa: F401  (the statics table itself is decided under C06 R06.3)
