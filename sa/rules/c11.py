"""C11 - Stewart platform inverse Jacobian is d(legs)/d(twist); leg forces balance the load.

Decided statically:
  R11.1 row layout of inverseJacobian: row i = [q_i x n_i ; n_i] - moment part first, matching the
        [omega; v] twist order and the [moment; force] wrench order - with q_i the BOTTOM joint and
        n_i = normalised (top joint - bottom joint) of the SAME leg i, six legs, matrix returned transposed
        into rows.
  R11.2 sumActuatorWrenches: for each of the six legs one wrench whose application point, direction and
        magnitude belong to the same leg i (point on the leg, direction along it), accumulated.
  R11.3 carryMassCalc accumulation sets: what is handed to staticForces is exactly {applied wrench, top-plate
        weight at the top pose, six shaft weights at getActuatorLoc(i, 't')}; motor and bottom-plate weights
        are added only afterwards.
  R11.4 space / body routing through Robot (forward = J^T-free inverse-Jacobian route: jacobian() =
        pinv(inverseJacobian())), and the query restores the poses it started with (C10 R10.4).
Not decided: derivative of leg lengths, equilibrium to 1e-8 (numerical).
"""
import ast

from ..engine.model import AnalysisError, src, walk_own
from ..engine.flow import Flow
from ..engine.typestate import EventDomain
from .spstate import SPM

ROBOT = 'basic_robotics.kinematics.robot_model'


def check(model, rep):
    rep.extra['explanation'] = (
        'Structural rules: Plucker row layout and per-leg index agreement of the inverse Jacobian, per-leg agreement and counting '
        'in the wrench summation, reaching-contribution sets of the mass-carrying load (what is added before / after the static '
        'solve), and the Robot routing between jacobian / inverseJacobian.')
    sp = model.cls(SPM, 'SP')
    ij = sp.methods.get('inverseJacobian')
    if ij is None:
        raise AnalysisError('anchor vanished: SP.inverseJacobian')
    rep.rule('R11.1', 'row i = [q_i x n_i ; n_i], q_i = bottom joint i, n_i = unit(top joint i - bottom joint i)')
    loops = [n for n in ij.body() if isinstance(n, ast.For)]
    if len(loops) != 1:
        raise AnalysisError('inverseJacobian: leg loop not recognised')
    lp = loops[0]
    i = lp.target.id
    a = {src(n.targets[0]).replace(' ', ''): src(n.value).replace(' ', '') for n in lp.body if isinstance(n, ast.Assign)}
    rep.ob('R11.1', ij, 'six legs', src(lp.iter).replace(' ', '') == 'range(6)', 'loop ranges over %s' % src(lp.iter), line=lp.lineno)
    rep.ob('R11.1', ij, 'n_i = Normalize(top_i - bottom_i)', a.get('ni') == 'fmr.Normalize(self._top_joints_space[:,%s]-self._bottom_joints_space[:,%s])' % (i, i),
           'leg direction is %s' % a.get('ni'), line=lp.lineno)
    rep.ob('R11.1', ij, 'q_i = bottom joint i', a.get('qi') == 'self._bottom_joints_space[:,%s]' % i, 'moment arm is %s' % a.get('qi'), line=lp.lineno)
    rep.ob('R11.1', ij, 'column = [q x n ; n]', a.get('col') == 'np.hstack((np.cross(qi,ni),ni))', 'Plucker coordinates are %s' % a.get('col'), line=lp.lineno)
    rep.ob('R11.1', ij, 'stored as column i of the transpose', a.get('inverse_jacobian_transpose[:,%s]' % i) == 'col',
           'column store is %s' % {k: v for k, v in a.items() if 'transpose' in k}, line=lp.lineno)
    post = {src(n.targets[0]): src(n.value).replace(' ', '') for n in ij.body() if isinstance(n, ast.Assign) and n.lineno > lp.end_lineno}
    rets = [n for n in walk_own(ij.node) if isinstance(n, ast.Return)]
    rep.ob('R11.1', ij, 'returns the transpose (rows = legs)', post.get('inverse_jacobian') == 'inverse_jacobian_transpose.T' and len(rets) == 1 and src(rets[0].value) == 'inverse_jacobian',
           'returned matrix is %s' % (src(rets[0].value) if rets else '?'))
    # geometry evaluated at the requested poses: IK(requested) before the loop, IK(saved) after
    iks = sorted((c for c in walk_own(ij.node) if isinstance(c, ast.Call) and src(c.func) == 'self.IK'), key=lambda c: c.lineno)
    ok = len(iks) == 2 and iks[0].lineno < lp.lineno < iks[1].lineno and 'old_top_plate_transform' in src(iks[1]) and 'old_bottom_plate_transform' in src(iks[1])
    saves = {src(n.targets[0]): src(n.value) for n in ij.body() if isinstance(n, ast.Assign) and n.lineno < lp.lineno}
    ok = ok and saves.get('old_bottom_plate_transform') == 'self.getBottomT()' and saves.get('old_top_plate_transform') == 'self.getTopT()'
    rep.ob('R11.1', ij, 'poses saved, IK(requested) ... rows ... IK(saved)', ok, 'save / evaluate / restore bracket not recognised')

    # ---------------------------------------------------------------- R11.2
    rep.rule('R11.2', 'sumActuatorWrenches: one wrench per leg with point, direction and magnitude of the same leg')
    sw = sp.methods.get('sumActuatorWrenches')
    loops = [n for n in sw.body() if isinstance(n, ast.For)]
    ok = False
    if len(loops) == 1:
        lp = loops[0]
        i = lp.target.id
        a = {src(n.targets[0]).replace(' ', ''): src(n.value).replace(' ', '') for n in lp.body if isinstance(n, ast.Assign)}
        aug = [n for n in lp.body if isinstance(n, ast.AugAssign)]
        uv = a.get('unit_vector')
        ok_dir = uv in ('fmr.Normalize(self._bottom_joints_space[:,%s]-self._top_joints_space[:,%s])' % (i, i),
                        'fmr.Normalize(self._top_joints_space[:,%s]-self._bottom_joints_space[:,%s])' % (i, i))
        ok_w = len(aug) == 1 and src(aug[0].target) == 'wrench' and src(aug[0].value).replace(' ', '') in (
            'fsr.makeWrench(self._top_joints_space[:,%s],float(forces[%s]),unit_vector)' % (i, i),
            'fsr.makeWrench(self._bottom_joints_space[:,%s],float(forces[%s]),unit_vector)' % (i, i))
        rep.ob('R11.2', sw, 'direction along leg i', ok_dir, 'direction is %s' % uv, line=lp.lineno)
        rep.ob('R11.2', sw, 'wrench += makeWrench(joint of leg i, force i, direction i)', ok_w, 'accumulation is %s' % (src(aug[0]) if aug else '?'), line=lp.lineno)
        rep.ob('R11.2', sw, 'six legs', src(lp.iter).replace(' ', '') == 'range(6)', 'loop ranges over %s' % src(lp.iter), line=lp.lineno)
    else:
        rep.ob('R11.2', sw, 'leg loop', False, 'sumActuatorWrenches loop not recognised')

    # ---------------------------------------------------------------- R11.3
    rep.rule('R11.3', 'carryMassCalc: load handed to staticForces = applied + top plate weight (at the top pose) + 6 shaft weights (at their cg); '
                      'motor / bottom plate weights only afterwards')
    cm = sp.methods.get('carryMassCalc')

    class Acc(EventDomain):
        """marks = (frozenset of contributions added to `wrench` so far, solved?)"""

        def _contrib(s, e):
            e = src(e).replace(' ', '')
            if e == 'fsr.makeWrench(self.getTopT(),self._top_plate_mass,self.grav)':
                return 'top-plate@top'
            if e == "fsr.makeWrench(self.getActuatorLoc(i,'t'),self._act_shaft_mass,self.grav)":
                return 'shaft_i@cg'
            if e == "fsr.makeWrench(self.getActuatorLoc(i,'b'),self._act_motor_mass,self.grav)":
                return 'motor_i@cg'
            if e == 'fsr.makeWrench(self.getBottomT(),self._bottom_plate_mass,self.grav)':
                return 'bottom-plate@bottom'
            return 'other:' + e[:50]

        def on_store(s, target, value, stmt, state):
            (got, solved), consts = state
            if isinstance(target, ast.Name) and target.id == 'wrench':
                if isinstance(stmt, ast.AugAssign):
                    got = got | {(s._contrib(stmt.value), s.in_loop)}
                elif value is not None and isinstance(value, ast.BinOp) and isinstance(value.op, ast.Add) and src(value.left) == 'wrench':
                    got = got | {(s._contrib(value.right), s.in_loop)}
                elif value is not None and src(value) == cm.params[1] + '.copy()':
                    got = frozenset({('applied', None)})
                else:
                    got = got | {('other:' + src(stmt)[:40], None)}
            return (((got, solved), consts),)

        in_loop = None

        def loop_may_skip(s, node, state):
            return not src(node.iter).replace(' ', '').startswith('range(6')

        def enter_loop(s, node, state):
            s.in_loop = src(node.iter).replace(' ', '')
            return super().enter_loop(node, state)

        def on_call(s, call, state):
            (got, solved), consts = state
            if src(call.func) == 'self.staticForces' and call.args and src(call.args[0]) == 'wrench':
                seen.append(got)
                solved = True
            return (((got, solved), consts),)
    seen = []
    exits = Flow(Acc()).run(cm.body(), {((frozenset(), False), frozenset())})
    want = {('applied', None), ('top-plate@top', None), ('shaft_i@cg', 'range(6)')}
    ok = bool(seen) and all({(c, l) for (c, l) in g} == want for g in seen)
    rep.ob('R11.3', cm, 'load on the legs = applied + top plate + six shafts', ok,
           'wrench handed to staticForces accumulates %s' % [sorted(g, key=str) for g in seen][:2])
    after = set()
    for e in exits:
        if e.kind in ('return', 'fall'):
            after |= {c for (c, l) in e.state[0][0]}
    rep.ob('R11.3', cm, 'motor and bottom-plate weights only in the returned total', {'motor_i@cg', 'bottom-plate@bottom'} <= after and
           not any(c.startswith('other') for c in after), 'returned total accumulates %s' % sorted(after))
    rets = [n for n in walk_own(cm.node) if isinstance(n, ast.Return)]
    rep.ob('R11.3', cm, 'returns (leg forces, total wrench)', len(rets) == 1 and src(rets[0].value).replace(' ', '').strip('()') == 'tau,wrench', 'returns %s' % (src(rets[0].value) if rets else '?'))

    # ---------------------------------------------------------------- R11.4
    rep.rule('R11.4', 'Robot routing: jacobian() = pinv(inverseJacobian()), statics through jacobian / jacobianBody (C06 table); SP defines inverseJacobian')
    robot = model.cls(ROBOT, 'Robot')
    j = robot.methods.get('jacobian')
    r = [n for n in walk_own(j.node) if isinstance(n, ast.Return)]
    ok = len(r) == 1 and src(r[0].value).replace(' ', '') == 'np.linalg.pinv(self.inverseJacobian(*args,**kwargs))'
    rep.ob('R11.4', j, 'jacobian = pinv(inverseJacobian(...)) with the same arguments', ok, 'Robot.jacobian is %s' % (src(r[0].value) if r else '?'))
    rep.ob('R11.4', sp.module.relpath, 'SP overrides inverseJacobian and not jacobian', 'inverseJacobian' in sp.methods and 'jacobian' not in sp.methods,
           'SP must define exactly one of jacobian / inverseJacobian (the other is derived by pseudo-inverse)', qualname='SP', line=0)
    from .c06 import check as _c06  # noqa: F401  (the statics table itself is decided under C06 R06.3)
