"""C11 - Stewart platform inverse Jacobian is d(legs)/d(twist); leg forces balance the load.

Decided statically:
  R11.1 row layout of inverseJacobian: row i = [q_i x n_i ; n_i] - moment part first, matching the
        [omega; v] twist order and the [moment; force] wrench order - with q_i the BOTTOM joint and
        n_i = normalised (top joint - bottom joint) of the SAME leg i, six legs, matrix returned transposed
        into rows.
  R11.2 sumActuatorWrenches: for each of the six legs one wrench whose application point, direction and
        magnitude belong to the same leg i (point on the leg, direction along it), accumulated.
  R11.3 carryMassCalc accumulation sets: what is handed to staticForces is exactly {applied wrench, top-plate
        weight at the top pose, six shaft weights at getActuatorLoc(i, 't')}; motor and bottom-plate weights
        are added only afterwards.
  R11.4 space / body routing through Robot (forward = J^T-free inverse-Jacobian route: jacobian() =
        pinv(inverseJacobian())), and the query restores the poses it started with (C10 R10.4).
Not decided: derivative of leg lengths, equilibrium to 1e-8 (numerical).
"""
import ast

from ..engine.model import AnalysisError, src, walk_own
from ..engine.flow import Flow
from ..engine.inline import Inliner, norm_text
from ..engine.typestate import EventDomain
from .spstate import SPM

ROBOT = 'basic_robotics.kinematics.robot_model'


def check(model, rep):
    rep.extra['explanation'] = (
        'Structural rules: Plucker row layout and per-leg index agreement of the inverse Jacobian, per-leg agreement and counting '
        'in the wrench summation, reaching-contribution sets of the mass-carrying load (what is added before / after the static '
        'solve), and the Robot routing between jacobian / inverseJacobian.')
    sp = model.cls(SPM, 'SP')
    ij = sp.methods.get('inverseJacobian')
    if ij is None:
        raise AnalysisError('anchor vanished: SP.inverseJacobian')
    rep.rule('R11.1', 'row i = [q_i x n_i ; n_i], q_i = bottom joint i, n_i = unit(top joint i - bottom joint i)')
    from ..engine import tv as _tv
    tp_, bp_, pr_ = ij.params[1], ij.params[2], ij.params[3]
    SPEC_IJ = """
        def inverseJacobian(self, %(tp)s=None, %(bp)s=None, %(pr)s=True):
            %(bp)s, %(tp)s = self._bottomTopCheck(%(bp)s, %(tp)s)
            saved_bottom = self.getBottomT()
            saved_top = self.getTopT()
            self.IK(%(ik1)s)
            rows = np.zeros((6, 6))
            for i in range(6):
                n = fmr.Normalize(self._top_joints_space[:, i] - self._bottom_joints_space[:, i])
                q = self._bottom_joints_space[:, i]
                rows[i, 0:3] = np.cross(q, n)
                rows[i, 3:6] = n
            self.IK(%(ik2)s)
            return rows
        """
    ok, why = False, ''
    # the two IK calls may name their arguments or pass them by position (top pose, bottom pose, protect)
    for ik1, ik2 in (('top_plate_pos = %s, bottom_plate_pos = %s, protect = %s' % (tp_, bp_, pr_), 'top_plate_pos = saved_top, bottom_plate_pos = saved_bottom, protect = %s' % pr_),
                     ('%s, %s, %s' % (tp_, bp_, pr_), 'saved_top, saved_bottom, %s' % pr_),
                     ('%s, %s, %s' % (tp_, bp_, pr_), 'top_plate_pos = saved_top, bottom_plate_pos = saved_bottom, protect = %s' % pr_),
                     ('top_plate_pos = %s, bottom_plate_pos = %s, protect = %s' % (tp_, bp_, pr_), 'saved_top, saved_bottom, %s' % pr_)):
        ok, w_ = _tv.fi_matches_spec(model, ij, SPEC_IJ % {'tp': tp_, 'bp': bp_, 'pr': pr_, 'ik1': ik1, 'ik2': ik2}, cell_shape=(6, 6))
        why = why or w_
        if ok:
            break
    rep.ob('R11.1', ij, 'row i = [q_i x n_i ; n_i] with q_i = bottom joint i, n_i = unit(top_i - bottom_i), six legs; poses saved, IK(requested) '
           '... rows ... IK(saved)', ok, 'inverseJacobian is not the Plucker-row construction inside the save / evaluate / restore bracket: ' + why)

    # ---------------------------------------------------------------- R11.2 / R11.3: sums of wrench contributions
    # Both methods build a wrench as a sum.  They are analysed on their partial evaluation (private helpers inlined, the six-leg
    # loops unrolled): on every path the value handed on is a sum whose terms are classified one by one.
    from ..engine import peval as _pe
    from ..engine.paths import paths_of
    meths = {n_: f_.node for n_, f_ in sp.methods.items()}

    def terms_of(text):
        """terms of a sum given as source text (None when it is not a sum of recognisable terms)"""
        try:
            e = ast.parse(text, mode='eval').body
        except SyntaxError:
            return None
        out = []

        def walk(x):
            if isinstance(x, ast.BinOp) and isinstance(x.op, ast.Add):
                walk(x.left)
                walk(x.right)
            else:
                out.append(x)
        walk(e)
        return out

    def unrolled(fi_):
        flat = _pe.flatten(meths, fi_.node, depth=2, impure=True)
        left = [n for n in ast.walk(flat) if isinstance(n, (ast.For, ast.While))]
        return flat, left

    rep.rule('R11.2', 'sumActuatorWrenches: one wrench per leg with point, direction and magnitude of the same leg')
    sw = sp.methods.get('sumActuatorWrenches')
    if sw is None:
        raise AnalysisError('anchor vanished: SP.sumActuatorWrenches')
    fp = sw.params[1]
    flat, left = unrolled(sw)
    rep.ob('R11.2', sw, 'six-leg loop has a constant trip count', not left, 'a loop of sumActuatorWrenches could not be unrolled (not over range(6))', shape=True)
    n_paths = 0
    _six_failed = []
    for pth in paths_of(flat, sw.params, consts={'%sisNone' % fp: False}):
        if pth.ret in (None, '<none>'):
            continue
        n_paths += 1
        ts = terms_of(pth.ret_src)
        legs, strange, bad = {}, [], []
        for t in ts or []:
            if not (isinstance(t, ast.Call) and norm_text(t.func) == 'fsr.makeWrench' and len(t.args) >= 3):
                strange.append(norm_text(t)[:60])
                continue
            class _Given(ast.NodeTransformer):
                # this case analysis is for a caller-supplied force vector: `X if forces is None else forces` is `forces`
                def visit_IfExp(s_, n_):
                    s_.generic_visit(n_)
                    tt = norm_text(n_.test)
                    if tt in ('%sisNone' % fp, '%s==None' % fp):
                        return n_.orelse
                    if tt in ('%sisnotNone' % fp, '%s!=None' % fp):
                        return n_.body
                    return n_
            import copy as _copy
            pt, mag, uv = (norm_text(_Given().visit(_copy.deepcopy(x))) for x in t.args[:3])
            if mag == '0':
                continue                      # the empty starting wrench
            k = None
            for k_ in range(6):
                if pt in ('self._top_joints_space[:,%d]' % k_, 'self._bottom_joints_space[:,%d]' % k_):
                    k = k_
            if k is None:
                bad.append('application point %s is not a joint of a leg' % pt)
                continue
            ok_dir = uv in ('fmr.Normalize(self._bottom_joints_space[:,%d]-self._top_joints_space[:,%d])' % (k, k),
                            'fmr.Normalize(self._top_joints_space[:,%d]-self._bottom_joints_space[:,%d])' % (k, k))
            import re as _re
            mag_n = _re.sub(r'\.(flatten|ravel|copy|squeeze)\(\)|\.reshape\(\(?6,?\)?\)', '', mag)      # layout-only views of the force vector
            ok_mag = mag_n in ('float(%s[%d])' % (fp, k), '%s[%d]' % (fp, k))
            if not ok_dir:
                bad.append('leg %d: direction is %s' % (k, uv))
            if not ok_mag:
                bad.append('leg %d: magnitude is %s' % (k, mag))
            legs[k] = legs.get(k, 0) + 1
        rep.ob('R11.2', sw, 'returned wrench is a sum of makeWrench terms', ts is not None and not strange, 'terms not recognised: %s' % strange[:2], shape=True, line=pth.ret_line)
        rep.ob('R11.2', sw, 'point, direction and magnitude of each term belong to the same leg', not bad, '; '.join(bad[:3]), line=pth.ret_line)
        # a leg left out exactly when its force is zero contributes the zero wrench: nothing is missing
        import re as _re2
        for k_ in range(6):
            if k_ in legs:
                continue
            for fk_, fv_ in pth.facts.items():
                t_ = _re2.sub(r'\.(flatten|ravel|copy|squeeze)\(\)|\.reshape\(\(?6,?\)?\)', '', fk_.replace(' ', ''))
                t_ = _re2.sub(r'^float\((.*)\)(==|!=)', r'\1\2', t_)
                if (t_ in ('%s[%d]==0' % (fp, k_), '%s[%d]==0.0' % (fp, k_)) and fv_) or (t_ in ('%s[%d]!=0' % (fp, k_), '%s[%d]!=0.0' % (fp, k_), '%s[%d]' % (fp, k_)) and not fv_):
                    legs[k_] = 1
        six = legs == {k_: 1 for k_ in range(6)}
        if six or not _six_failed:
            conds = ['%s is %s' % (pth.fact_src.get(k_, k_), v_) for k_, v_ in sorted(pth.facts.items()) if fp in k_][:3]
            rep.ob('R11.2', sw, 'six legs, one wrench each', six,
                   'legs contributing (leg: count) = %s%s: the sum leaves out the wrench of a leg, so it no longer balances the applied wrench'
                   % (dict(sorted(legs.items())), (' on the path where ' + ' and '.join(conds)) if conds else ''), line=pth.ret_line)
        if not six:
            _six_failed.append(pth)
    rep.floor('R11.2', 'returning paths of sumActuatorWrenches', n_paths, 1)

    # ---------------------------------------------------------------- R11.3
    rep.rule('R11.3', 'carryMassCalc: load handed to staticForces = applied + top plate weight (at the top pose) + 6 shaft weights (at their cg); '
                      'motor / bottom plate weights only afterwards')
    cm = sp.methods.get('carryMassCalc')
    if cm is None:
        raise AnalysisError('anchor vanished: SP.carryMassCalc')
    ap = cm.params[1]
    flat, left = unrolled(cm)
    rep.ob('R11.3', cm, 'six-leg loops have a constant trip count', not left, 'a loop of carryMassCalc could not be unrolled (not over range(6))', shape=True)

    def classify(ts):
        got, strange = [], []
        for t in ts or []:
            tx = norm_text(t)
            if tx in (ap, ap + '.copy()'):
                got.append('applied')
            elif tx == 'fsr.makeWrench(self.getTopT(),self._top_plate_mass,self.grav)':
                got.append('top-plate@top')
            elif tx == 'fsr.makeWrench(self.getBottomT(),self._bottom_plate_mass,self.grav)':
                got.append('bottom-plate@bottom')
            else:
                for k_ in range(6):
                    if tx == "fsr.makeWrench(self.getActuatorLoc(%d,'t'),self._act_shaft_mass,self.grav)" % k_:
                        got.append('shaft_%d@cg' % k_)
                        break
                    if tx == "fsr.makeWrench(self.getActuatorLoc(%d,'b'),self._act_motor_mass,self.grav)" % k_:
                        got.append('motor_%d@cg' % k_)
                        break
                else:
                    strange.append(tx[:70])
        return sorted(got), strange
    want_load = sorted(['applied', 'top-plate@top'] + ['shaft_%d@cg' % k_ for k_ in range(6)])
    want_total = sorted(want_load + ['bottom-plate@bottom'] + ['motor_%d@cg' % k_ for k_ in range(6)])
    n_solves = 0
    for pth in paths_of(flat, cm.params):
        solves = pth.calls(lambda t: t == 'self.staticForces')
        for ev in solves:
            n_solves += 1
            got, strange = classify(terms_of(ev[2][0]) if ev[2] else None)
            rep.ob('R11.3', cm, 'load on the legs = applied + top plate + six shafts', got == want_load and not strange,
                   'wrench handed to staticForces is the sum of %s%s' % (got, (' and of ' + str(strange[:2])) if strange else ''), line=ev[3])
        if pth.ret in (None, '<none>'):
            continue
        try:
            rt = ast.parse(pth.ret_src, mode='eval').body
        except SyntaxError:
            rt = None
        ok_shape = isinstance(rt, ast.Tuple) and len(rt.elts) == 2
        rep.ob('R11.3', cm, 'returns a pair', ok_shape, 'returns %s' % pth.ret[:80], shape=True, line=pth.ret_line)
        if not ok_shape:
            continue
        first = norm_text(rt.elts[0])
        rep.ob('R11.3', cm, 'returns (leg forces, total wrench)', first.startswith('self.staticForces(') , 'first returned value is %s' % first[:80], line=pth.ret_line)
        got, strange = classify(terms_of(norm_text(rt.elts[1])))
        rep.ob('R11.3', cm, 'motor and bottom-plate weights only in the returned total', got == want_total and not strange,
               'returned total is the sum of %s%s' % (got, (' and of ' + str(strange[:2])) if strange else ''), line=pth.ret_line)
    rep.floor('R11.3', 'static solves in carryMassCalc', n_solves, 1)

    # ---------------------------------------------------------------- R11.5
    rep.rule('R11.5', 'centres of gravity on a leg: getActuatorLoc(i, "t" / "b") is the leg\'s own top / bottom joint moved by exactly the configured '
                      'offset along the unit direction to the other joint (never a function of the current leg length)')
    from ..engine.paths import paths_of
    from ..engine import tv as _tv
    gal = sp.methods.get('getActuatorLoc')
    if gal is None:
        raise AnalysisError('anchor vanished: SP.getActuatorLoc')
    num_p, kind_p = gal.params[1], gal.params[2]

    TOP, BOT = '_top_joints_space', '_bottom_joints_space'
    want = {'t': (TOP, BOT, 'self._act_shaft_grav_center'), 'b': (BOT, TOP, 'self._act_motor_grav_center')}

    def joint_of(text, own, other):
        """the expression is built from column `num` of the joint table `own` alone"""
        e = ast.parse(text, mode='eval').body
        fields = {x.attr for x in ast.walk(e) if isinstance(x, ast.Attribute) and isinstance(x.value, ast.Name) and x.value.id == 'self'}
        cols = [x for x in ast.walk(e) if isinstance(x, ast.Subscript) and isinstance(x.value, ast.Attribute) and x.value.attr == own]
        return fields == {own} and bool(cols) and all(isinstance(x.slice, ast.Tuple) and len(x.slice.elts) == 2 and norm_text(x.slice.elts[1]) == num_p for x in cols)
    seen = set()
    from .common_ops import flat_method
    gal_flat = flat_method(sp, 'getActuatorLoc')           # private helpers that build the joint points read in place
    for pth in paths_of(gal_flat.node, gal.params):
        if pth.kind != 'return' or pth.ret_src is None:
            continue
        kinds = [k_ for k_ in want if pth.facts.get("%s=='%s'" % (kind_p, k_)) is True]
        if len(kinds) != 1:
            continue
        k_ = kinds[0]
        seen.add(k_)
        rt = ast.parse(pth.ret_src, mode='eval').body
        # getUnitVec(first point, second point, distance): arguments by position or by name
        _guv = model.find_func('basic_robotics.general.faser_general', 'getUnitVec')
        guv_p = (list(_guv.params) + ['', '', ''])[:3] if _guv is not None else ['', '', 'distance']
        args5 = list(rt.args[:3]) + [None] * (3 - len(rt.args[:3])) if isinstance(rt, ast.Call) else [None] * 3
        for kw_ in (rt.keywords if isinstance(rt, ast.Call) else []):
            if kw_.arg in guv_p:
                args5[guv_p.index(kw_.arg)] = kw_.value
        ok = isinstance(rt, ast.Call) and norm_text(rt.func).split('.')[-1] == 'getUnitVec' and all(a_ is not None for a_ in args5) \
            and len(rt.args) + len(rt.keywords) == 3
        got = tuple(norm_text(a_) for a_ in args5) if ok else ()
        rep.ob('R11.5', gal, "getActuatorLoc(i, '%s') = getUnitVec(own joint, other joint of leg i, configured offset)" % k_,
               ok and joint_of(got[0], want[k_][0], want[k_][1]) and joint_of(got[1], want[k_][1], want[k_][0]) and got[2] == want[k_][2],
               ("the '%s' location is %s: the centre of gravity is not at the configured distance %s from the %s joint of leg i towards its other joint "
                "(e.g. clamped to the current leg length: on short legs the weight then acts somewhere else than where the mass is)"
                % (k_, (norm_text(rt)[:160]), want[k_][2], 'top' if k_ == 't' else 'bottom')), line=pth.ret_line)
    rep.ob('R11.5', gal, "paths for 't' and 'b' found", seen == {'t', 'b'}, 'paths found for %s' % sorted(seen), shape=True)
    guv = model.func('basic_robotics.general.faser_general', 'getUnitVec')
    res = _tv.fi_matches_spec(model, guv, """
        def getUnitVec(a, b, distance=1.0, return_dist=False):
            va = np.array([a[0], a[1], a[2]])
            d = np.array([b[0], b[1], b[2]]) - va
            n = ling.norm(d)
            pos = va + (d / n) * distance
            if return_dist:
                return tm([pos[0], pos[1], pos[2], 0, 0, 0]), n
            return tm([pos[0], pos[1], pos[2], 0, 0, 0])
        """)
    rep.ob('R11.5', guv, 'getUnitVec = first point + unit(second - first) * distance', res[0],
           'getUnitVec does not return the first point moved by `distance` along the unit vector to the second: ' + res[1])

    # ---------------------------------------------------------------- R11.4
    rep.rule('R11.4', 'Robot routing: jacobian() = pinv(inverseJacobian()), statics through jacobian / jacobianBody (C06 table); SP defines inverseJacobian')
    robot = model.cls(ROBOT, 'Robot')
    j = robot.methods.get('jacobian')
    r = [n for n in walk_own(j.node) if isinstance(n, ast.Return)]
    got_j = Inliner(j).text(r[0].value, canon=False) if len(r) == 1 else '?'             # temporaries resolved
    ok = got_j == 'np.linalg.pinv(self.inverseJacobian(*args,**kwargs))'
    rep.ob('R11.4', j, 'jacobian = pinv(inverseJacobian(...)) with the same arguments', ok, 'Robot.jacobian is %s' % got_j)
    from .common_ops import pinv_cutoff
    for c in [c for fi_ in (j,) + tuple(sp.methods[m] for m in ('staticForces', 'staticForcesBody', 'carryMassCalc') if m in sp.methods)
              for c in walk_own(fi_.node) if isinstance(c, ast.Call) and src(c.func).endswith('pinv')]:
        cut = pinv_cutoff(c)
        rep.ob('R11.4', j, 'pseudo-inverse without truncation: ' + src(c)[:60], cut is None,
               'singular values below %s of the largest are discarded: near-singular but full-rank platforms get a wrong Jacobian' % cut, line=c.lineno)
    rep.ob('R11.4', sp.module.relpath, 'SP overrides inverseJacobian and not jacobian', 'inverseJacobian' in sp.methods and 'jacobian' not in sp.methods,
           'SP must define exactly one of jacobian / inverseJacobian (the other is derived by pseudo-inverse)', qualname='SP', line=0)
    # the statics table (forward = J^T @ wrench, inverse = pinv(J^T) @ forces; Body variants through jacobianBody): the same rule as C06 R06.3,
    # decided here too because the platform's body-frame statics clause rests on it
    from .c06 import statics_table
    statics_table(model, rep, robot, 'R11.4')

    # ---------------------------------------------------------------- R11.6
    # sumActuatorWrenches() / componentForces() / getActuatorForces() without an argument read the forces of the LAST statics evaluation
    # (self._last_tau): each statics method records what it computed, on every path, whatever optional arguments it was called with
    rep.rule('R11.6', 'every path of Robot.staticForces / staticForcesBody / staticForcesInv / staticForcesInvBody records the forces it worked with in '
                      'self._last_tau (carryMassCalc forwards keyword arguments: a store that depends on how the method was called leaves the default '
                      'of sumActuatorWrenches() stale)')
    from .common_ops import flat_method as _fm
    n_rec = 0
    for name_ in ('staticForces', 'staticForcesBody', 'staticForcesInv', 'staticForcesInvBody'):
        if name_ not in robot.methods:
            continue
        fm_ = _fm(robot, name_)
        for pth in paths_of(fm_.node, fm_.params):
            if pth.kind not in ('return', 'fall'):
                continue
            n_rec += 1
            stored = [e for e in pth.events if e[0] == 'store' and e[1] == 'self._last_tau']
            rep.ob('R11.6', fm_, '%s records self._last_tau (path ending at line %s)' % (name_, pth.ret_line), bool(stored),
                   'a path through %s (conditions: %s) returns forces without recording them in self._last_tau: the force queries that default to the '
                   'last evaluation then report an older evaluation' % (name_, '; '.join('%s is %s' % (k_[:50], v_) for k_, v_ in sorted(pth.facts.items()))[:200] or 'none'),
                   line=pth.ret_line)
    rep.floor('R11.6', 'paths of the statics methods', n_rec, 4)
    # ---------------------------------------------------------------- R11.7
    # the leg wrenches that sumActuatorWrenches adds (and the weights carryMassCalc lifts) are built by fsr.makeWrench / Wrench: a force at a
    # point is [p x f ; f] for EVERY magnitude - the rule function of C12 R12.3, run as a clause of this property
    from .c12 import Checker as _WrenchChecker
    from .common_ops import RuleAlias
    _WrenchChecker(model, RuleAlias(rep, {'R12.3': 'R11.7'})).r123()
    rep.rules['R11.7'] = ('every leg wrench is a force at a point: makeWrench(position, magnitude, direction) = Wrench(direction * magnitude, position, frame) = [p x f ; f] '
                          'on every path, whatever the magnitude (rule function shared with C12 R12.3)')
    r118(model, rep, sp)
    r119(model, rep, sp)


def r118(model, rep, sp):
    """The mass model the mass-carrying statics works with comes from the platform definition: which definition entry ends in which field is decided
    by a backward def-use flow (field <- setter parameter <- newSP argument <- loadSP local <- definition key; sa/rules/roleflow.py), and
    judged by the definition's own vocabulary: `<Component>Mass` entries are masses, `<Component>COGD` entries are distances of that
    component's centre of gravity, `...Extension` entries are lengths.  carryMassCalc puts the weight `self._act_<c>_mass` at the point
    getActuatorLoc(.., side) = joint + unit * `self._act_<c>_grav_center` (R11.3 / R11.5), so
      (a) the mass field and the centre-of-gravity field of one component are fed by entries of the SAME component, and
      (b) a mass field never receives a length (a COGD entry or a value computed from extensions), a centre-of-gravity field never a mass."""
    from .roleflow import RoleFlow, keys_of
    rep.rule('R11.8', 'actuator mass model: the definition entries reach the fields the mass-carrying statics reads by role - <C>Mass into the mass field and '
                      '<C>COGD (or a length inferred from the extensions) into the centre-of-gravity field of the same component C, on every loader path')
    rf = RoleFlow(model, [SPM])
    n = 0
    for comp in ('shaft', 'motor'):
        mfield, cfield = '_act_%s_mass' % comp, '_act_%s_grav_center' % comp
        mo, msites = rf.field(sp, mfield)
        co, csites = rf.field(sp, cfield)
        if not msites or not csites:
            rep.ob('R11.8', sp.module.relpath, 'stores of %s / %s' % (mfield, cfield), False, 'field never stored', shape=True, qualname='SP')
            continue
        where = [f_ for f_, _n in msites if f_.name != '__init__'] or [msites[0][0]]
        mkeys, ckeys = keys_of({o for o in mo if o[0] == 'key'}), keys_of({o for o in co if o[0] == 'key'})
        mcomp = {k[-1][:-len('Mass')] for k in mkeys if k[-1].endswith('Mass')}
        ccomp = {k[-1][:-len('COGD')] for k in ckeys if k[-1].endswith('COGD')}
        n += 1
        unknown = sorted(str(o[1]) for o in (mo | co) if o[0] == 'unknown')
        if unknown or not mcomp or not ccomp:
            rep.ob('R11.8', where[0], 'definition entries behind %s / %s' % (mfield, cfield), False,
                   'origins not resolved to definition entries: %s (mass entries %s, centre-of-gravity entries %s)' % (unknown, sorted(mkeys), sorted(ckeys)), shape=True)
            continue
        # (b) roles
        bad = []
        for o in mo:
            ks = keys_of({o})
            if o[0] == 'key' and not o[1][-1].endswith('Mass'):
                bad.append('the mass field %s receives the definition entry %s' % (mfield, '/'.join(o[1])))
            if o[0] == 'expr' and ks and all(k[-1].endswith(('Extension', 'COGD')) for k in ks):
                bad.append('the mass field %s receives %s, a length computed from %s' % (mfield, o[1], sorted('/'.join(k) for k in ks)))
        for o in co:
            ks = keys_of({o})
            if ks and any(k[-1].endswith('Mass') for k in ks):
                bad.append('the centre-of-gravity field %s receives a value made from the mass entry %s' % (cfield, sorted('/'.join(k) for k in ks if k[-1].endswith('Mass'))))
        rep.ob('R11.8', where[0], '%s holds masses, %s holds distances' % (mfield, cfield), not bad,
               '; '.join(bad) + ': on that loader path the weights the mass-carrying statics adds are not those of the definition')
        # (a) same component
        rep.ob('R11.8', where[0], '%s and %s describe one component' % (mfield, cfield), mcomp == ccomp,
               'the weight of %s (entries %s) is applied at the centre of gravity configured by %s: mass and centre of gravity of different components are '
               'paired, so the moment of the actuator weights about the plate is wrong whenever the two distances differ'
               % (sorted(mcomp), sorted('/'.join(k) for k in mkeys), sorted('/'.join(k) for k in ckeys)))
    rep.floor('R11.8', 'actuator components with a mass model', n, 2)


def r119(model, rep, sp):
    """Memo coherence over the Jacobian / statics methods of the platform (rule function shared with R08.7 / R06.8)."""
    from . import memocoh
    rep.rule('R11.9', 'Jacobian / statics methods of SP keep nothing between calls that a later pose or configuration change can outdate: every method that '
             'writes a field a kept value was computed from also discards the kept value; a keyed memo is covered only for what its key compares')
    allm = memocoh.all_methods(sp)
    q = [fi for n, fi in sorted(allm.items()) if n.startswith(('inverseJacobian', 'altInverseJacobian', 'jacobian', 'staticForces', 'carryMassCalc', 'componentForces', 'measureForces'))]
    memocoh.check(rep, 'R11.9', sp, q, 'inverse Jacobian / leg forces of a platform whose plates or base were moved since')
    rep.floor('R11.9', 'Jacobian / statics methods of SP scanned', len(q), 6)
