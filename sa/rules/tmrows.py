"""Which rows of a transform's six-vector does a method of class tm write IN PLACE?

The six-vector `self.TAA` holds the translation in rows 0..2 and the rotation vector in rows 3..5.  Methods that are meant to touch the
rotation only (angle wrapping) must not store into the translation rows; constructor forms must leave the translation they stored
untouched.  The row set of every element store `self.TAA[<index>] = ...` / `self.TAA[<index>] op= ...` is decided from the index
expression, in the method itself and in every method of the class it calls on `self` (transitively):

  constant row / constant slice        exact rows
  loop variable of range(a, b)         rows a..b-1 (constants)
  boolean-mask / index array name      rows of the expression the mask was computed from: `self.TAA[3:6]`-restricted masks cannot be
                                       applied to the whole vector, a mask computed from the whole of self.TAA covers every row
  anything else                        unknown (reported as not proven)
"""
import ast

from ..engine.inline import norm_text

ROT = frozenset((3, 4, 5))
ALL = frozenset(range(6))


def _const_int(e):
    if isinstance(e, ast.Constant) and isinstance(e.value, int) and not isinstance(e.value, bool):
        return e.value
    if isinstance(e, ast.UnaryOp) and isinstance(e.op, ast.USub) and isinstance(e.operand, ast.Constant) and isinstance(e.operand.value, int):
        return -e.operand.value
    return None


def _rows_of_index(ix, loops, defs, depth=0):
    """-> frozenset of rows, or None when unknown"""
    if isinstance(ix, ast.Tuple) and ix.elts:
        ix = ix.elts[0]
    k = _const_int(ix)
    if k is not None:
        return frozenset((k % 6,)) if -6 <= k < 6 else None
    if isinstance(ix, ast.Slice):
        lo = 0 if ix.lower is None else _const_int(ix.lower)
        hi = 6 if ix.upper is None else _const_int(ix.upper)
        st = 1 if ix.step is None else _const_int(ix.step)
        if lo is None or hi is None or st is None:
            return None
        return frozenset(range(6)[slice(lo, hi, st)])
    if isinstance(ix, ast.Name):
        if ix.id in loops:
            return loops[ix.id]
        ds = defs.get(ix.id, [])
        if len(ds) == 1 and depth < 3:
            return _rows_of_mask(ds[0], loops, defs, depth + 1)
    return None


def _rows_of_mask(e, loops, defs, depth):
    """rows a boolean mask / index array computed by `e` can select when applied to the whole six-vector"""
    taa = [x for x in ast.walk(e) if isinstance(x, ast.Attribute) and x.attr == 'TAA' and isinstance(x.value, ast.Name) and x.value.id == 'self']
    if not taa:
        return None
    sliced = [x for x in ast.walk(e) if isinstance(x, ast.Subscript) and x.value in taa]
    if len(sliced) == len(taa):
        # every read of the six-vector is restricted: the mask has as many rows as the restriction - applied to the full vector it selects
        # from row 0 on (NumPy pads nothing: a 3-row mask on a 6-row array is an error or selects rows 0..2)
        return None
    return ALL          # computed from the whole six-vector: every row can be selected


def _rows_of_iter(it, defs, depth=0):
    """rows an iteration variable can take: range(a, b) with constants, a tuple / list of constants, or a name bound once to a selection
    `[i for i in <such an iterable> if ...]` / `list(...)` / `sorted(...)` of one"""
    if isinstance(it, ast.Call) and norm_text(it.func) == 'range' and it.args:
        a = [_const_int(x) for x in it.args]
        if all(v is not None for v in a):
            rng = range(*a)
            if all(-6 <= v < 6 for v in rng):
                return frozenset(v % 6 for v in rng)
        return None
    if isinstance(it, (ast.Tuple, ast.List)):
        ks = [_const_int(x) for x in it.elts]
        if all(k is not None and -6 <= k < 6 for k in ks):
            return frozenset(k % 6 for k in ks)
        return None
    if isinstance(it, ast.Call) and norm_text(it.func) in ('list', 'sorted', 'tuple', 'reversed', 'set') and len(it.args) == 1:
        return _rows_of_iter(it.args[0], defs, depth)
    if isinstance(it, (ast.ListComp, ast.GeneratorExp, ast.SetComp)) and len(it.generators) == 1 and isinstance(it.generators[0].target, ast.Name) \
            and isinstance(it.elt, ast.Name) and it.elt.id == it.generators[0].target.id:
        return _rows_of_iter(it.generators[0].iter, defs, depth)
    if isinstance(it, ast.Name) and depth < 3 and len(defs.get(it.id, [])) == 1:
        return _rows_of_iter(defs[it.id][0], defs, depth + 1)
    return None


def _own_stores(fn):
    defs = {}
    for n in ast.walk(fn):
        if isinstance(n, ast.Assign) and len(n.targets) == 1 and isinstance(n.targets[0], ast.Name):
            defs.setdefault(n.targets[0].id, []).append(n.value)
    out = []
    # local views of the six-vector: `v = self.TAA[a:b]` / `self.TAA[a:b, 0]` - a store through v reaches (at most) rows a..b-1
    views = {}
    for nm, vs in defs.items():
        rows_ = []
        for v in vs:
            if isinstance(v, ast.Subscript) and isinstance(v.value, ast.Attribute) and v.value.attr == 'TAA' and isinstance(v.value.value, ast.Name) \
                    and v.value.value.id == 'self':
                first = v.slice.elts[0] if isinstance(v.slice, ast.Tuple) and v.slice.elts else v.slice
                rows_.append(_rows_of_index(first, {}, defs) if isinstance(first, ast.Slice) else None)
            else:
                rows_ = None
                break
        if rows_:
            views[nm] = None if any(r is None for r in rows_) else frozenset().union(*rows_)

    def visit(stmts, loops):
        for s_ in stmts:
            if isinstance(s_, (ast.FunctionDef, ast.ClassDef, ast.AsyncFunctionDef)):
                continue
            if isinstance(s_, ast.For):
                lp = dict(loops)
                if isinstance(s_.target, ast.Name):
                    lp[s_.target.id] = _rows_of_iter(s_.iter, defs)
                visit(s_.body, lp)
                visit(s_.orelse, loops)
                continue
            if isinstance(s_, (ast.Assign, ast.AugAssign)):
                for t in (s_.targets if isinstance(s_, ast.Assign) else [s_.target]):
                    if isinstance(t, ast.Subscript) and isinstance(t.value, ast.Attribute) and t.value.attr == 'TAA' \
                            and isinstance(t.value.value, ast.Name) and t.value.value.id == 'self':
                        out.append((s_.lineno, norm_text(t), _rows_of_index(t.slice, loops, defs)))
                    elif isinstance(t, ast.Subscript) and isinstance(t.value, ast.Name) and t.value.id in views:
                        out.append((s_.lineno, '%s (a view of self.TAA)' % norm_text(t), views[t.value.id]))
            for fld in ('body', 'orelse', 'finalbody'):
                sub = getattr(s_, fld, None)
                if isinstance(sub, list) and sub and isinstance(sub[0], ast.stmt):
                    visit(sub, loops)
            for h in getattr(s_, 'handlers', []) or []:
                visit(h.body, loops)
    visit(fn.body, {})
    return out


def taa_element_stores(tm_cls, fi, depth=4):
    """Element stores into self.TAA executed by method `fi` of class tm or by any method of the class it calls on `self` (transitively, to
    `depth`).  -> list of (lineno, 'method: target text', rows | None)"""
    out, seen = [], set()

    def go(f_, d):
        if f_.name in seen or d < 0:
            return
        seen.add(f_.name)
        for line, text, rows in _own_stores(f_.node):
            out.append((line, text if f_ is fi else '%s (in %s, called on self)' % (text, f_.name), rows))
        for c in ast.walk(f_.node):
            if isinstance(c, ast.Call) and isinstance(c.func, ast.Attribute) and isinstance(c.func.value, ast.Name) and c.func.value.id == 'self' \
                    and c.func.attr in tm_cls.methods:
                go(tm_cls.methods[c.func.attr], d - 1)
    go(fi, depth)
    return out


def rotation_only(rep, rule, tm_cls, fi, what, consequence):
    """Obligations: every in-place store of `fi` into the six-vector stays inside the rotation rows.  -> number of stores examined"""
    stores = taa_element_stores(tm_cls, fi)
    for line, text, rows in stores:
        if rows is None:
            rep.ob(rule, fi, '%s: rows of the in-place store %s' % (what, text), False, 'the rows this store can reach could not be bounded', shape=True, line=line)
            continue
        ok = rows <= ROT
        rows_txt = 'rows %s' % sorted(rows)
        rep.ob(rule, fi, '%s: in-place store %s stays in the rotation rows 3..5' % (what, text), ok,
               '%s writes %s of the six-vector (%s): the translation rows 0..2 are rewritten - %s' % (what, text, rows_txt, consequence), line=line)
    return len(stores)
