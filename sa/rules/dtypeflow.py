"""Input-typed buffers: in-place stores of computed values into an array whose dtype follows the caller's argument.

`np.array(x)`, `np.asarray(x)`, `x.reshape(...)`, `x.copy()`, slices of x ... take the dtype of x.  When x is a list or array of Python / NumPy
integers (a documented way of describing a pose: `tm([0, 0, 0, 1, 0, 2])`), an element or slice store `buf[...] = <computed value>` into such a
buffer silently truncates the value to an integer.  A buffer created with an explicit float dtype (`np.array(x, dtype=float)`, `.astype(float)`,
`np.zeros(...)`) is not input-typed.  The analysis is flow-insensitive on definitions: a local counts as input-typed only when EVERY
definition of it is, so it reports definite cases only.
"""
import ast

from ..engine.inline import norm_text
from ..engine.model import walk_own

VIEW_FUNCS = {'np.array', 'numpy.array', 'np.asarray', 'numpy.asarray', 'np.asanyarray', 'numpy.asanyarray', 'np.copy', 'numpy.copy', 'np.squeeze',
              'numpy.squeeze', 'np.ravel', 'numpy.ravel', 'np.reshape', 'numpy.reshape', 'np.transpose', 'numpy.transpose', 'np.atleast_1d',
              'numpy.atleast_1d', 'copy.copy', 'copy.deepcopy'}
VIEW_METHODS = {'reshape', 'copy', 'flatten', 'ravel', 'squeeze', 'transpose', 'view'}
TAKES_DTYPE = {'np.array', 'numpy.array', 'np.asarray', 'numpy.asarray', 'np.asanyarray', 'numpy.asanyarray'}


class InputTyped:
    def __init__(self, fi, skip=('self', 'cls')):
        self.fi = fi
        self.params = [p for p in fi.params if p not in skip]
        self.defs = {}
        for n in walk_own(fi.node):
            if isinstance(n, ast.Assign):
                for t in n.targets:
                    if isinstance(t, ast.Name):
                        self.defs.setdefault(t.id, []).append(n.value)
                    elif isinstance(t, (ast.Tuple, ast.List)):
                        for x in t.elts:
                            if isinstance(x, ast.Name):
                                self.defs.setdefault(x.id, []).append(None)
            elif isinstance(n, (ast.AugAssign, ast.AnnAssign)) and isinstance(n.target, ast.Name):
                self.defs.setdefault(n.target.id, []).append(None)
            elif isinstance(n, (ast.For, ast.comprehension)) and isinstance(n.target, ast.Name):
                self.defs.setdefault(n.target.id, []).append(None)
            elif isinstance(n, ast.With):
                for it in n.items:
                    if isinstance(it.optional_vars, ast.Name):
                        self.defs.setdefault(it.optional_vars.id, []).append(None)

    def element(self, e, seen):
        """an integer literal, or an element / the whole of an input-typed value (what a list literal may hold without fixing a float dtype)"""
        if isinstance(e, ast.Constant) and isinstance(e.value, int) and not isinstance(e.value, bool):
            return True
        if isinstance(e, ast.UnaryOp) and isinstance(e.op, ast.USub):
            return self.element(e.operand, seen)
        if isinstance(e, ast.Subscript) and not isinstance(e.slice, ast.Slice):
            return self.array(e.value, seen)
        return self.array(e, seen)

    def array(self, e, seen=frozenset()):
        """True when the array `e` evaluates to has the dtype of (a part of) an argument"""
        if isinstance(e, ast.Name):
            if e.id in self.defs:
                if e.id in seen:
                    return False
                ds = self.defs[e.id]
                own = e.id in self.params          # a re-bound parameter: the argument is one of its definitions
                return all(d is not None and self.array(d, seen | {e.id}) for d in ds) and (own or bool(ds))
            return e.id in self.params
        if isinstance(e, ast.Attribute) and e.attr == 'T':
            return self.array(e.value, seen)
        if isinstance(e, ast.Subscript):
            return isinstance(e.slice, (ast.Slice, ast.Tuple)) and self.array(e.value, seen)
        if isinstance(e, ast.Call):
            fn = norm_text(e.func)
            if fn in VIEW_FUNCS and e.args:
                if any(k.arg == 'dtype' for k in e.keywords) or (fn in TAKES_DTYPE and len(e.args) > 1):
                    return False
                a = e.args[0]
                if isinstance(a, (ast.List, ast.Tuple)):
                    flat = []

                    def fl(x):
                        if isinstance(x, (ast.List, ast.Tuple)):
                            for y in x.elts:
                                fl(y)
                        else:
                            flat.append(x)
                    fl(a)
                    return bool(flat) and all(self.element(x, seen) for x in flat) and any(not isinstance(x, ast.Constant) for x in flat)
                return self.array(a, seen)
            if isinstance(e.func, ast.Attribute) and e.func.attr in VIEW_METHODS:
                return self.array(e.func.value, seen)
        return False

    def computed(self, e):
        """the stored value is computed (not a literal integer, not taken from the input itself)"""
        if self.element(e, frozenset()):
            return False
        for n in ast.walk(e):
            if isinstance(n, ast.Call):
                fn = norm_text(n.func)
                if fn in VIEW_FUNCS or (isinstance(n.func, ast.Attribute) and n.func.attr in VIEW_METHODS) or fn in ('len', 'int', 'range'):
                    continue
                return True
            if isinstance(n, ast.BinOp) and isinstance(n.op, ast.Div):
                return True
            if isinstance(n, ast.Constant) and isinstance(n.value, float):
                return True
        return False

    def stores(self):
        """-> [(node, base name, target text, value text)] element / slice stores of computed values into input-typed locals"""
        out = []
        for n in walk_own(self.fi.node):
            if isinstance(n, ast.Assign):
                tgts, val = n.targets, n.value
            elif isinstance(n, ast.AugAssign):
                tgts, val = [n.target], n.value
            else:
                continue
            for t in tgts:
                if not isinstance(t, ast.Subscript):
                    continue
                b = t.value
                while isinstance(b, ast.Subscript):
                    b = b.value
                if not isinstance(b, ast.Name) or b.id not in self.defs:
                    continue
                if not self.array(b):
                    continue
                if isinstance(n, ast.AugAssign) or self.computed(val):
                    out.append((n, b.id, norm_text(t), norm_text(val)))
        return out
