"""C20 - disp never fails and shows every element it was given.

Decided statically on utilities/disp.py:
  R20.1 printed string == returned string: disp prints exactly the value it returns, once, guarded only by
        `not noprint`; both display modes strip the same trailing newline.
  R20.2 element coverage: the 1-D base case formats matrix[i] exactly once for every i in range(shape[0]) with
        width nd+6 and precision nd on the |x| < 9999 path; every higher-dimensional branch (2, 3, 4, >=5)
        recurses on matrix[i,] exactly once per i in range(shape[0]) on every path and appends the result;
        nd is forwarded in the <=4-D branches.
  R20.3 dispatch: the branches on the number of dimensions are exhaustive (1, 2, 3, 4, else); the shape /
        dimension probing that can raise (0-d arrays, objects without shape) sits inside the catch-all that
        falls back to str(); every integer conversion round(x) on the numeric path is dominated by
        `not isinf(x)` and only reached when |x| >= 9999 (false for NaN).
Not decided: exception freedom for arbitrary objects (dynamic dispatch of __str__/__format__), rendering of
lists of transforms with non-finite entries (outside the property's stated inputs).
"""
import ast

from ..engine.model import AnalysisError, src, walk_own
from ..engine.flow import Flow
from ..engine.inline import Inliner, norm_text, resolved_in_block
from ..engine.typestate import FactDomain, EventDomain

MOD = 'basic_robotics.utilities.disp'


def canonicalise_roles(dispa):
    """Discover the locals of dispa by role and rename them (in this process' syntax tree only) to the names the rules use:
    shape (matrix.shape), dims (len(shape)), strr (the returned accumulator), t_nd (the per-element precision started from nd),
    fmat (the format spec), h (the row accumulator parameter is a parameter already)."""
    mat, nd = dispa.params[0], dispa.params[2]
    own = list(walk_own(dispa.node))
    roles = {}

    def assigned(pred, what, many=False):
        got = {n.targets[0].id for n in own if isinstance(n, ast.Assign) and len(n.targets) == 1 and isinstance(n.targets[0], ast.Name) and pred(n.value)}
        if len(got) != 1:
            raise AnalysisError('dispa: local for %s not recognised (%s)' % (what, sorted(got)))
        return got.pop()
    shape = assigned(lambda v: norm_text(v) == '%s.shape' % mat, 'the shape')
    roles[shape] = 'shape'
    roles[assigned(lambda v: norm_text(v) == 'len(%s)' % shape, 'the number of dimensions')] = 'dims'
    rets = [n for n in dispa.body() if isinstance(n, ast.Return) and isinstance(n.value, ast.Name)]
    if not rets:
        raise AnalysisError('dispa: final return of the accumulated string not recognised')
    roles[rets[-1].value.id] = 'strr'
    fm_defs = [n.value for n in own if isinstance(n, ast.Assign) and len(n.targets) == 1 and isinstance(n.targets[0], ast.Name)
               and any(isinstance(c, ast.Constant) and c.value == '{:' for c in ast.walk(n.value))]
    prec = []
    for v in fm_defs:
        strs = [c for c in ast.walk(v) if isinstance(c, ast.Call) and isinstance(c.func, ast.Name) and c.func.id == 'str' and len(c.args) == 1]
        strs.sort(key=lambda c: (c.lineno, c.col_offset))
        if strs and isinstance(strs[-1].args[0], ast.Name) and strs[-1].args[0].id not in dispa.params:
            prec.append(strs[-1].args[0].id)
    if len(set(prec)) == 1:
        roles[prec[0]] = 't_nd'
    roles[assigned(lambda v: any(isinstance(c, ast.Constant) and c.value == '{:' for c in ast.walk(v)), 'the format spec')] = 'fmat'
    if len(set(roles.values())) != len(roles):
        raise AnalysisError('dispa: one local plays two roles (%s)' % roles)
    clash = {v for k, v in roles.items() if k != v} & ({n.id for n in own if isinstance(n, ast.Name)} - set(roles))
    if clash:
        raise AnalysisError('dispa: role names already used for something else: %s' % sorted(clash))
    for n in own:
        if isinstance(n, ast.Name) and n.id in roles:
            n.id = roles[n.id]
    return roles


def _call_arg(call, params, name):
    """the argument a call binds to parameter `name` of a callee with parameter list `params` (by position or by keyword)"""
    for k in call.keywords:
        if k.arg == name:
            return k.value
    if name in params and params.index(name) < len(call.args):
        a = call.args[params.index(name)]
        return None if isinstance(a, ast.Starred) else a
    return None


def render_rows(dispa, d, n):
    """Rows dispa renders recursively for an array of `d` >= 2 dimensions whose first axis has `n` entries: the function body is specialised
    to that case (ndim / len(shape) := d, shape[0] / len(matrix) := n), constant tests folded, constant-trip loops unrolled, and the recursive
    calls `dispa(matrix[k, ...], ...)` are read off every remaining path (title / formatting tests stay open).
    -> (list of per-path row sequences, problems)"""
    import copy
    from ..engine import peval
    from ..engine.paths import paths_of
    mat = dispa.params[0]
    shape_vars, dims_vars = set(), set()
    for a in walk_own(dispa.node):
        if isinstance(a, ast.Assign) and len(a.targets) == 1 and isinstance(a.targets[0], ast.Name):
            t = norm_text(a.value)
            if t in ('%s.shape' % mat, 'np.shape(%s)' % mat, 'numpy.shape(%s)' % mat, 'np.asarray(%s).shape' % mat):
                shape_vars.add(a.targets[0].id)
    for a in walk_own(dispa.node):
        if isinstance(a, ast.Assign) and len(a.targets) == 1 and isinstance(a.targets[0], ast.Name):
            t = norm_text(a.value)
            if t in ('%s.ndim' % mat, 'np.ndim(%s)' % mat) or any(t == 'len(%s)' % sv for sv in shape_vars) or t == 'len(%s.shape)' % mat:
                dims_vars.add(a.targets[0].id)
    if not dims_vars:
        return None, ['the number of dimensions is not bound to a name from len(shape) / ndim']

    class Spec(ast.NodeTransformer):
        def visit_Subscript(s_, nd_):
            s_.generic_visit(nd_)
            if isinstance(nd_.ctx, ast.Load) and isinstance(nd_.slice, ast.Constant) and nd_.slice.value == 0 and \
                    (norm_text(nd_.value) in shape_vars or norm_text(nd_.value) == '%s.shape' % mat):
                return ast.copy_location(ast.Constant(value=n), nd_)
            return nd_

        def visit_Name(s_, nd_):
            if isinstance(nd_.ctx, ast.Load) and nd_.id in dims_vars:
                return ast.copy_location(ast.Constant(value=d), nd_)
            return nd_

        def visit_Attribute(s_, nd_):
            s_.generic_visit(nd_)
            if norm_text(nd_) == '%s.ndim' % mat:
                return ast.copy_location(ast.Constant(value=d), nd_)
            return nd_

        def visit_Call(s_, nd_):
            s_.generic_visit(nd_)
            t = norm_text(nd_)
            if t == 'len(%s)' % mat:
                return ast.copy_location(ast.Constant(value=n), nd_)
            if any(t == 'len(%s)' % sv for sv in shape_vars) or t == 'len(%s.shape)' % mat:
                return ast.copy_location(ast.Constant(value=d), nd_)
            return nd_
    fn = copy.deepcopy(dispa.node)
    fn = Spec().visit(fn)
    ast.fix_missing_locations(fn)

    class Arith(ast.NodeTransformer):
        def visit_BinOp(s_, nd_):
            s_.generic_visit(nd_)
            if isinstance(nd_.left, ast.Constant) and isinstance(nd_.right, ast.Constant) and all(
                    isinstance(v_.value, int) and not isinstance(v_.value, bool) for v_ in (nd_.left, nd_.right)):
                a_, b_ = nd_.left.value, nd_.right.value
                r_ = {ast.Add: lambda: a_ + b_, ast.Sub: lambda: a_ - b_, ast.Mult: lambda: a_ * b_,
                      ast.FloorDiv: lambda: a_ // b_ if b_ else None}.get(type(nd_.op), lambda: None)()
                if r_ is not None:
                    return ast.copy_location(ast.Constant(value=r_), nd_)
            return nd_
    # names bound once to an integer constant (`last = shape[0] - 1`) are read as that constant
    for _round in range(3):
        fn = Arith().visit(fn)
        binds = {}
        for a in ast.walk(fn):
            if isinstance(a, ast.Name) and isinstance(a.ctx, ast.Store):
                binds.setdefault(a.id, []).append(None)
        for a in ast.walk(fn):
            if isinstance(a, ast.Assign) and len(a.targets) == 1 and isinstance(a.targets[0], ast.Name) and isinstance(a.value, ast.Constant) \
                    and isinstance(a.value.value, int) and not isinstance(a.value.value, bool) and len(binds.get(a.targets[0].id, [])) == 1:
                binds[a.targets[0].id] = [a.value.value]
        known = {k_: v_[0] for k_, v_ in binds.items() if len(v_) == 1 and v_[0] is not None and k_ not in dispa.params}
        if not known:
            break

        class CP(ast.NodeTransformer):
            def visit_Name(s_, nd_):
                if isinstance(nd_.ctx, ast.Load) and nd_.id in known:
                    return ast.copy_location(ast.Constant(value=known[nd_.id]), nd_)
                return nd_
        fn = CP().visit(fn)
    ast.fix_missing_locations(fn)
    body = [peval._fold(s_) for s_ in peval.flatten_body({}, list(fn.body), 0, None, (), False, False)]
    body = peval._fold_const_ifs(body)
    # a second round: bounds named before the loop (`last = n - 1`) become constants once copies are propagated
    fn.body = body
    ast.fix_missing_locations(fn)
    left = [l_ for l_ in ast.walk(fn) if isinstance(l_, (ast.For, ast.While)) and any(
        isinstance(c_, ast.Call) and isinstance(c_.func, ast.Name) and c_.func.id == dispa.name and c_.args and isinstance(c_.args[0], ast.Subscript)
        and norm_text(c_.args[0].value) == mat for c_ in ast.walk(l_))]
    if left:
        return None, ['a loop around the recursive rendering does not have a constant trip count for ndim = %d, shape[0] = %d (line %d)' % (d, n, left[0].lineno)]
    seqs, problems = [], []
    try:
        ps = paths_of(fn, dispa.params)
    except RuntimeError as ex:
        return None, ['paths not summarised: %s' % ex]
    for pth in ps:
        if any(e_[0] == 'except' for e_ in pth.events):
            continue                    # the catch-all fallback (objects without a shape): not the array case
        other_kind = False
        for fk_, fv_ in pth.facts.items():
            t_ = fk_.replace(' ', '')
            if fv_ and (t_.startswith('hasattr(%s,' % mat) or (t_.startswith('isinstance(%s,' % mat) and 'ndarray' not in t_)):
                other_kind = True       # dispatch on the KIND of the argument (transform, list, ...): not an array
        if other_kind:
            continue
        seq = []
        for ev in pth.calls(lambda t: t == dispa.name):
            a0 = (ev[4][0] if len(ev) > 4 and ev[4] else (ev[2][0] if ev[2] else ''))
            try:
                e0 = ast.parse(a0, mode='eval').body
            except SyntaxError:
                problems.append('argument %s of a recursive call not parsed' % a0[:40])
                continue
            if not (isinstance(e0, ast.Subscript) and norm_text(e0.value) == mat):
                continue                # not a rendering of a sub-array of the argument
            ix = e0.slice.elts[0] if isinstance(e0.slice, ast.Tuple) and e0.slice.elts else e0.slice
            k = ix.value if isinstance(ix, ast.Constant) and isinstance(ix.value, int) else None
            if isinstance(ix, ast.UnaryOp) and isinstance(ix.op, ast.USub) and isinstance(ix.operand, ast.Constant):
                k = -ix.operand.value
            if k is None:
                problems.append('row index %s of a recursive rendering is not constant for ndim = %d, shape[0] = %d' % (norm_text(ix)[:30], d, n))
                continue
            seq.append(k)
        seqs.append(seq)
    return seqs, problems


def check(model, rep):
    rep.extra['explanation'] = (
        'Path-counting and guard-dominance analysis of disp/dispa: one print of the returned string; exactly one rendering per '
        'element / sub-array per loop iteration on every path; precision and nd forwarding; exhaustive dispatch on dims with the '
        'raising probes inside the catch-all; round() only under a not-isinf fact.')
    disp = model.func(MOD, 'disp')

    def flat_func(name):
        """the function with the module's private helpers inlined (AST partial evaluation; structure only)"""
        import copy
        from ..engine import peval, tv
        f = model.func(MOD, name)
        flat = peval.propagate_copies(peval.flatten_function(tv.toplevel_funcs(f.module.tree), peval.propagate_copies(f.node), depth=2, impure=True))
        ast.fix_missing_locations(flat)
        g = copy.copy(f)
        g.node = flat
        for parent in ast.walk(flat):
            for ch in ast.iter_child_nodes(parent):
                f.module.parents[ch] = parent
        f.module.parents[flat] = f.module.parents.get(f.node)
        return g
    dispa = flat_func('dispa')
    roles = canonicalise_roles(dispa)
    rep.note('locals of dispa by role: %s' % {v: k for k, v in sorted(roles.items())})
    # ---------------------------------------------------------------- R20.1
    rep.rule('R20.1', 'disp prints exactly the string it returns, once, unless noprint')
    prints = [c for c in walk_own(disp.node) if isinstance(c, ast.Call) and src(c.func) == 'print']
    rets = [n for n in walk_own(disp.node) if isinstance(n, ast.Return) and n.value is not None]
    ok = len(prints) == 1 and len(rets) == 1 and len(prints[0].args) == 1 and src(prints[0].args[0]) == src(rets[0].value)
    rep.ob('R20.1', disp, 'print(x) ... return x', ok, 'printed value %s vs returned value %s' % (
        [src(p.args[0]) for p in prints if p.args], [src(r.value) for r in rets]))
    if prints:
        par = disp.module.parents.get(disp.module.parents.get(prints[0]))
        guarded = isinstance(par, ast.If) and src(par.test).replace(' ', '') in ('notnoprint', 'noprint==False', 'noprintisFalse') and not par.orelse
        rep.ob('R20.1', disp, 'print guarded only by `not noprint`', guarded, 'the print is guarded by %s' % (src(par.test) if isinstance(par, ast.If) else 'nothing'))
    name = src(rets[0].value) if rets else None
    asg = [n for n in walk_own(disp.node) if isinstance(n, ast.Assign) and src(n.targets[0]) == name and isinstance(n.value, ast.Subscript)]
    strips = {src(n.value.slice).replace(' ', '') for n in asg}
    srcs = {src(n.value.value.func) for n in asg if isinstance(n.value.value, ast.Call)}
    rep.ob('R20.1', disp, 'both modes strip one trailing newline', strips == {':-1'} and srcs == {'dispa', 'disptex'},
           'mode outputs are post-processed differently: %s from %s' % (sorted(strips), sorted(srcs)))
    for n in asg:
        c = n.value.value
        fw = isinstance(c, ast.Call) and len(c.args) >= 3 and [src(a) for a in c.args[:3]] == [disp.params[0], disp.params[1], disp.params[2]]
        rep.ob('R20.1', disp, src(c)[:60], fw, 'matrix/title/nd are not forwarded unchanged to the renderer', line=n.lineno)
    # ... and what those names hold at the call is what the caller passed: on every path the renderer receives the parameters themselves
    from ..engine.paths import paths_of as _paths20
    n_fw = 0
    for pth in _paths20(disp.node, disp.params):
        for ev in pth.calls(lambda t: t in ('dispa', 'disptex')):
            n_fw += 1
            got = list(ev[2][:3])
            want = [disp.params[0], disp.params[1], disp.params[2]]
            rep.ob('R20.1', disp, '%s receives the object, title and precision disp was given' % ev[1], got == want,
                   'on a path the renderer is handed %s instead of (%s): what is rendered is no longer the element rounded to nd decimals (e.g. values '
                   'pre-processed or snapped before display)' % ([g[:60] for g in got], ', '.join(want)), line=ev[3])
    rep.floor('R20.1', 'renderer calls on the paths of disp', n_fw, 2)

    # ---------------------------------------------------------------- R20.2 / R20.3 on dispa
    rep.rule('R20.2', 'exactly one rendering per element / sub-array per iteration of range(shape[0]) on every path; precision nd; nd forwarded')
    rep.rule('R20.3', 'exhaustive dims dispatch; raising probes inside the catch-all; round() only under not-isinf')
    mat, nd = dispa.params[0], dispa.params[2]
    _nd_arg = lambda c_: _call_arg(c_, dispa.params, nd)
    # find the dims dispatch chain
    chain = None
    for n in dispa.body():
        if isinstance(n, ast.If) and src(n.test).replace(' ', '') == 'dims==1':
            chain = n
    if chain is None:
        raise AnalysisError('dispa: dispatch on dims not recognised')
    arms = []
    cur = chain
    while True:
        if len(cur.orelse) == 1 and isinstance(cur.orelse[0], ast.If):
            arms.append((src(cur.test).replace(' ', ''), cur.body))
            cur = cur.orelse[0]
        elif isinstance(cur.test, ast.UnaryOp) and isinstance(cur.test.op, ast.Not) and cur.orelse:
            # `elif not dims == k: <else arm> else: <k arm>` is the same dispatch written the other way round
            arms.append((src(cur.test.operand).replace(' ', ''), cur.orelse))
            arms.append(('else', cur.body))
            break
        else:
            arms.append((src(cur.test).replace(' ', ''), cur.body))
            arms.append(('else', cur.orelse))
            break
    tests = [a[0] for a in arms]
    # exhaustive: 1 has its own arm, the chain ends in a non-empty catch-all, and every number of dimensions from 2 up reaches a rendering
    # (the case analysis of R20.2 below finds array paths for ndim = 2, 3, 4 and 5 - the catch-all is parametric in ndim)
    rep.ob('R20.3', dispa, 'dispatch arms ' + ', '.join(tests), tests[:1] == ['dims==1'] and tests[-1] == 'else' and bool(arms[-1][1])
           and all(t_ in ('dims==1', 'dims==2', 'dims==3', 'dims==4', 'else') for t_ in tests),
           'dimension dispatch is not exhaustive over 1, 2, 3, 4, >=5: %s' % tests, line=chain.lineno)
    # arrays of 2 and more dimensions: which rows are rendered, decided by case analysis on (ndim, shape[0]) of the specialised body - however the
    # loop over the first axis is written (one loop, first / interior / last row handled apart, ...).  shape[0] = 0..4 separates every
    # special-casing of the first, second, last-but-one and last row; bounds that are affine in shape[0] then agree for all larger sizes.
    n_cases = 0
    for d_ in (2, 3, 4, 5):
        for n_ in (0, 1, 2, 3, 4):
            seqs, probs = render_rows(dispa, d_, n_)
            if seqs is None or probs:
                rep.ob('R20.2', dispa, 'ndim = %d, shape[0] = %d: rows rendered' % (d_, n_), False, '; '.join(probs)[:200], shape=True)
                continue
            n_cases += 1
            want = list(range(n_))
            bad = [q_ for q_ in seqs if q_ != want]
            rep.ob('R20.2', dispa, 'ndim = %d, shape[0] = %d: rows 0..%d rendered once each, in order, on every path' % (d_, n_, n_ - 1), bool(seqs) and not bad,
                   ('for an array with %d dimension(s) and %d row(s) along the first axis dispa renders the rows %s instead of %s: %s' % (
                       d_, n_, bad[0], want,
                       'a row that does not exist is indexed (IndexError - an empty table is a valid array)' if any(k_ >= n_ or k_ < -n_ for k_ in bad[0]) else
                       'a sub-array is left out, repeated or out of order')) if bad else 'no array path found', line=dispa.node.lineno)
    rep.floor('R20.2', '(ndim, shape[0]) cases of the recursive rendering decided', n_cases, 20)
    for test, body in arms:
        if test != 'dims==1':
            label = test
            calls = [c for s_ in body for c in ast.walk(s_) if isinstance(c, ast.Call) and isinstance(c.func, ast.Name) and c.func.id == 'dispa'
                     and c.args and isinstance(c.args[0], ast.Subscript) and src(c.args[0].value) == mat]
            appended = all(isinstance(dispa.module.parents.get(c), ast.AugAssign) and src(dispa.module.parents.get(c).target) == 'strr' for c in calls)
            rep.ob('R20.2', dispa, '%s: rendering appended to the result' % label, appended and bool(calls), 'a recursive rendering is computed but not appended',
                   line=calls[0].lineno if calls else None)
            if test != 'else':
                fw = all(_nd_arg(c) is not None and src(_nd_arg(c)) == nd for c in calls)
                rep.ob('R20.2', dispa, '%s: nd forwarded' % label, fw, 'the requested number of decimals is not forwarded to the sub-arrays',
                       line=calls[0].lineno if calls else None)
            continue
        loops = [s for s in body if isinstance(s, ast.For)]
        label = test
        if len(loops) != 1 or not isinstance(loops[0].target, ast.Name):
            rep.ob('R20.2', dispa, '%s: one loop over the first axis' % label, False, '%d loops in this branch' % len(loops))
            continue
        lp = loops[0]
        iv = lp.target.id
        ok_rng = src(lp.iter).replace(' ', '') == 'range(shape[0])'
        rep.ob('R20.2', dispa, '%s: for %s in range(shape[0])' % (label, iv), ok_rng, 'loop ranges over %s' % src(lp.iter), line=lp.lineno)
        if test == 'dims==1':
            # exactly one format of matrix[i] appended per iteration
            elem = '%s[%s]' % (mat, iv)
            replaced = []

            class Cnt(EventDomain):
                # user state: (formats so far, names holding exactly matrix[i], names that held it and were overwritten)
                def on_store(s, target, value, stmt, state):
                    (n_, al, gone), consts = state
                    if isinstance(target, ast.Name):
                        if value is not None and src(value) == elem:
                            al, gone = al | {target.id}, frozenset(g for g in gone if g[0] != target.id)
                        elif target.id in al:
                            al, gone = al - {target.id}, gone | {(target.id, src(stmt)[:60], stmt.lineno)}
                    return (((n_, al, gone), consts),)

                def on_call(s, call, state):
                    (n_, al, gone), consts = state
                    if isinstance(call.func, ast.Attribute) and call.func.attr == 'format' and call.args:
                        a0 = call.args[0]
                        if src(a0) == elem or (isinstance(a0, ast.Name) and a0.id in al):
                            return (((min(n_ + 1, 2), al, gone), consts),)
                        if isinstance(a0, ast.Name):
                            for g in gone:
                                if g[0] == a0.id:
                                    replaced.append(g)
                    return (state,)
            ends, brks, exits = Flow(Cnt()).run_loop_body(lp.body, {((0, frozenset(), frozenset()), frozenset())})
            counts = sorted({e[0][0] for e in ends})
            if replaced:
                g = sorted(set(replaced), key=lambda x: x[2])[0]
                rep.ob('R20.2', dispa, 'dims==1: the formatted value is the element itself', False,
                       'on some path the element held in `%s` is overwritten (`%s`, line %d) before it is formatted: the rendered number is not the '
                       'array element rounded to nd decimals' % (g[0], g[1], g[2]), line=g[2])
            rep.ob('R20.2', dispa, 'dims==1: one formatted element per index', (counts == [1] or bool(replaced)) and not brks and not exits,
                   'formats of %s[%s] per iteration on the different paths: %s' % (mat, iv, counts), line=lp.lineno)
            fm = [n for n in ast.walk(lp) if isinstance(n, ast.Assign) and src(n.targets[0]) == 'fmat']
            ok_f = len(fm) == 1 and src(fm[0].value).replace(' ', '').replace('"', "'") == "'{:'+str(%s+6)+'.'+str(t_nd)+'f}'" % nd
            tnd = [n for n in ast.walk(lp) if isinstance(n, ast.Assign) and src(n.targets[0]) == 't_nd']
            top = [n for n in lp.body if isinstance(n, ast.Assign) and src(n.targets[0]) == 't_nd']      # by position, not by line number
            first = top[0] if top else None
            ok_t = first is not None and src(first.value) == nd
            # t_nd is only reduced under the |x| >= 9999 guard
            reduce_ok = True
            for n in tnd:
                if n is first:
                    continue
                p = dispa.module.parents.get(n)
                under = False
                while p is not None and p is not lp:
                    if isinstance(p, ast.If) and '>= 9999' in src(p.test) and 'abs(%s[%s])' % (mat, iv) in src(p.test):
                        under = True
                    p = dispa.module.parents.get(p)
                reduce_ok = reduce_ok and under
            rep.ob('R20.2', dispa, 'dims==1: width nd+6, precision nd unless |x| >= 9999', ok_f and ok_t and reduce_ok,
                   'format spec %s / precision start %s / reduction guarded %s' % (src(fm[0].value) if fm else '?', src(first.value) if first is not None else '?', reduce_ok), line=lp.lineno)
            # appended to the line and the line appended to the result
            # the formatted text flows (through the row string, or a list of cells that is joined) into the returned accumulator
            tainted = set()

            def is_src(e_):
                return any((isinstance(c_, ast.Call) and isinstance(c_.func, ast.Attribute) and c_.func.attr == 'format') or
                           (isinstance(c_, ast.Name) and c_.id in tainted) for c_ in ast.walk(e_))
            changed = True
            while changed:
                changed = False
                for n in [x for s_ in body for x in ast.walk(s_)]:
                    tgt = None
                    if isinstance(n, ast.Assign) and len(n.targets) == 1 and isinstance(n.targets[0], ast.Name) and is_src(n.value):
                        tgt = n.targets[0].id
                    elif isinstance(n, ast.AugAssign) and isinstance(n.target, ast.Name) and is_src(n.value):
                        tgt = n.target.id
                    elif isinstance(n, ast.Call) and isinstance(n.func, ast.Attribute) and n.func.attr in ('append', 'extend') \
                            and isinstance(n.func.value, ast.Name) and n.args and is_src(n.args[0]):
                        tgt = n.func.value.id
                    if tgt is not None and tgt not in tainted:
                        tainted.add(tgt)
                        changed = True
            rep.ob('R20.2', dispa, 'dims==1: formatted element appended to the row', 'strr' in tainted,
                   'the formatted elements never reach the returned string (they flow into %s only)' % sorted(tainted), line=lp.lineno)
            # round() guard
            found = {}

            class G(FactDomain):
                def user_call(s, call, facts, user):
                    if isinstance(call.func, ast.Name) and call.func.id == 'round' and len(call.args) == 1:
                        a = src(call.args[0])
                        g1 = FactDomain.has(facts, False, 'math.isinf(%s)' % a)
                        g2 = any(f[0] is True and f[1].replace(' ', '') == 'abs(%s)>=9999' % a for f in facts)
                        found[src(call)] = (found.get(src(call), (True,))[0] and g1 and g2, call.lineno)
                    return user
            Flow(G()).run_loop_body(lp.body, {((frozenset(), None), frozenset())})
            for k, (ok, line) in sorted(found.items()):
                rep.ob('R20.3', dispa, k, ok, 'integer conversion of a value that may be infinite (OverflowError) or is not known to be >= 9999 (NaN)', line=line)
            if not found:
                rep.ob('R20.3', dispa, 'no unguarded round()', True, 'no integer conversions on the element path')
        else:
            class Cnt2(EventDomain):
                def on_call(s, call, state):
                    n_, consts = state
                    if isinstance(call.func, ast.Name) and call.func.id == 'dispa' and call.args and src(call.args[0]).replace(' ', '') == '%s[%s,]' % (mat, iv):
                        return ((min(n_ + 1, 2), consts),)
                    return (state,)
            ends, brks, exits = Flow(Cnt2()).run_loop_body(lp.body, {(0, frozenset())})
            counts = sorted({e[0] for e in ends})
            rep.ob('R20.2', dispa, '%s: one recursive rendering of %s[%s,] per index' % (label, mat, iv), counts == [1] and not brks and not exits,
                   'recursive renderings per iteration on the different paths: %s' % counts, line=lp.lineno)
            calls = [c for c in ast.walk(lp) if isinstance(c, ast.Call) and isinstance(c.func, ast.Name) and c.func.id == 'dispa']
            appended = all(isinstance(dispa.module.parents.get(c), ast.AugAssign) and src(dispa.module.parents.get(c).target) == 'strr' for c in calls)
            rep.ob('R20.2', dispa, '%s: rendering appended to the result' % label, appended and bool(calls), 'a recursive rendering is computed but not appended', line=lp.lineno)
            if test != 'else':
                fw = all(_nd_arg(c) is not None and src(_nd_arg(c)) == nd for c in calls)
                rep.ob('R20.2', dispa, '%s: nd forwarded' % label, fw, 'the requested number of decimals is not forwarded to the sub-arrays', line=lp.lineno)
    rets = [n for n in dispa.body() if isinstance(n, ast.Return)]
    rep.ob('R20.2', dispa, 'returns the accumulated string', bool(rets) and src(rets[-1].value) == 'strr', 'dispa does not return the accumulated string')
    # probes inside the catch-all
    tries = [n for n in dispa.body() if isinstance(n, ast.Try)]
    ok = False
    if tries:
        t = tries[-1]
        txt = ' '.join(src(s) for s in t.body)
        bare = any(h.type is None or src(h.type) in ('Exception',) for h in t.handlers)
        falls = any(any(isinstance(s, ast.Return) for s in h.body) and 'str(%s)' % mat in ' '.join(src(s) for s in h.body) for h in t.handlers)
        ok = 'len(shape)' in txt and 'max(shape)' in txt and '.shape' in txt and bare and falls
    rep.ob('R20.3', dispa, 'shape / dims / max(shape) probed inside try ... except: return str(matrix)', ok,
           'a probe that raises for 0-d arrays or shapeless objects is outside the catch-all fallback')

    # ---------------------------------------------------------------- R20.4
    rep.rule('R20.4', 'LaTeX renderer: no integer conversion (int / one-argument round / floor / ceil) of an array element '
                      'unless a finiteness test dominates it (NaN and +-inf are valid entries and must render, not raise)')
    n_conv = 0
    for fi in model.funcs_in(MOD):
        if fi.outer is not None or fi.name != 'disptex' or not fi.params:
            continue        # the LaTeX renderer of 2-D numeric arrays (dispa has R20.3; list printers are outside the NaN/inf clause)
        matp = fi.params[0]
        tainted = {matp}
        changed = True
        while changed:
            changed = False
            for n in walk_own(fi.node):
                if isinstance(n, ast.Assign) and any(isinstance(x, ast.Name) and x.id in tainted for x in ast.walk(n.value)):
                    for t in n.targets:
                        for x in ast.walk(t):
                            if isinstance(x, ast.Name) and x.id not in tainted and isinstance(x.ctx, ast.Store):
                                tainted.add(x.id)
                                changed = True
                if isinstance(n, ast.For) and any(isinstance(x, ast.Name) and x.id in tainted for x in ast.walk(n.iter)):
                    for x in ast.walk(n.target):
                        if isinstance(x, ast.Name) and x.id not in tainted:
                            tainted.add(x.id)
                            changed = True
        # shapes / lengths are integers already
        def is_conv(c):
            f = c.func
            nm = src(f)
            if nm == 'int' and len(c.args) == 1:
                return True
            if nm == 'round' and len(c.args) == 1:
                return True
            return nm in ('math.floor', 'math.ceil', 'np.floor', 'np.ceil') and False
        found4 = {}

        class G4(FactDomain):
            def user_call(s_, call, facts, user):
                if isinstance(call, ast.Call) and is_conv(call):
                    a = call.args[0]
                    names = {x.id for x in ast.walk(a) if isinstance(x, ast.Name)}
                    if not (names & tainted) or any(isinstance(x, ast.Call) and src(x.func) in ('len',) for x in ast.walk(a)) \
                            or any(isinstance(x, ast.Attribute) and x.attr == 'shape' for x in ast.walk(a)):
                        return user
                    at = src(a)
                    finite = any(FactDomain.has(facts, True, '%s(%s)' % (fn_, at)) for fn_ in ('math.isfinite', 'np.isfinite'))
                    noinf = finite or any(FactDomain.has(facts, False, '%s(%s)' % (fn_, at)) for fn_ in ('math.isinf', 'np.isinf'))
                    nonan = finite or any(FactDomain.has(facts, False, '%s(%s)' % (fn_, at)) for fn_ in ('math.isnan', 'np.isnan'))
                    key = '%s (line %d)' % (src(call)[:50], call.lineno)
                    found4[key] = (found4.get(key, (True,))[0] and noinf and nonan, call.lineno)
                return user
        Flow(G4()).run(fi.body(), {((frozenset(), None), frozenset())})
        for k, (ok, line) in sorted(found4.items()):
            n_conv += 1
            rep.ob('R20.4', fi, k, ok, 'integer conversion of a value taken from the array without a dominating finiteness test: a NaN entry raises '
                   'ValueError and an infinite one OverflowError, so disp() raises instead of returning the rendering', line=line)
        rep.ob('R20.4', fi, 'element conversions of %s guarded' % fi.name, all(v[0] for v in found4.values()), 'see the conversions above')
    rep.count('R20.4 integer conversions of array elements outside dispa', n_conv)

    # ---------------------------------------------------------------- R20.5
    # ---------------------------------------------------------------- R20.6
    rep.rule('R20.6', 'printTFlist (lists of transforms / wrenches): every integer conversion round(x) of an entry is dominated by abs(x) >= 9999 '
                      '(false for NaN) and by not math.isinf(x): non-finite entries are rendered, not converted')
    ptf = flat_func('printTFlist')
    found6 = {}

    class G6(FactDomain):
        def user_call(s, call, facts, user):
            if isinstance(call.func, ast.Name) and call.func.id == 'round' and len(call.args) == 1 and isinstance(call.args[0], ast.Subscript):
                a = src(call.args[0])
                g1 = FactDomain.has(facts, False, 'math.isinf(%s)' % a) or FactDomain.has(facts, True, 'math.isfinite(%s)' % a) \
                    or FactDomain.has(facts, True, 'np.isfinite(%s)' % a)
                g2 = any(f[0] is True and f[1].replace(' ', '') == 'abs(%s)>=9999' % a for f in facts)
                k6 = 'round(...) at line %d' % call.lineno       # unrolled copies of one statement count once
                found6[k6] = (found6.get(k6, (True, 0, True))[0] and g1, call.lineno, found6.get(k6, (True, 0, True))[2] and g2)
            return user
    Flow(G6()).run(ptf.body(), {((frozenset(), None), frozenset())})
    for k_, (ok_inf, line_, ok_nan) in sorted(found6.items()):
        rep.ob('R20.6', ptf, k_ + ' not applied to an infinite entry', ok_inf,
               'integer conversion of an entry that may be infinite: disp of a list of transforms / wrenches raises OverflowError', line=line_)
        rep.ob('R20.6', ptf, k_ + ' not applied to a NaN entry', ok_nan,
               'integer conversion of an entry that is not known to be >= 9999 in magnitude: a NaN entry makes disp raise ValueError instead of rendering nan', line=line_)
    rep.floor('R20.6', 'integer conversions of entries in printTFlist', len(found6), 1)
    rep.rule('R20.5', 'builtin round() is applied to a raw array element only if every scalar type of the stated dtypes (float / int / bool) '
                      'implements __round__ in the installed NumPy, or a conversion / capability test comes first')
    from ..engine import npstub
    DTYPES = ('floating', 'integer', 'bool')
    lacking = [c for c in DTYPES if npstub.scalar_has_method(c, '__round__') == 'no']
    n_round = 0
    for fi in (dispa, flat_func('disptex')):
        matp = fi.params[0]
        found5 = {}

        class G5(FactDomain):
            # user = names that currently hold a raw element of the array (path-sensitive)
            def user_store(s_, target, value, stmt, facts, user):
                user = user or frozenset()
                if isinstance(target, ast.Name):
                    is_raw = isinstance(value, ast.Subscript) and isinstance(value.value, ast.Name) and value.value.id == matp
                    return (user | {target.id}) if is_raw else (user - {target.id})
                return user

            def user_call(s_, call, facts, user):
                user = user or frozenset()
                if isinstance(call.func, ast.Name) and call.func.id == 'round' and call.args:
                    a = call.args[0]
                    raw = (isinstance(a, ast.Subscript) and isinstance(a.value, ast.Name) and a.value.id == matp) or \
                          (isinstance(a, ast.Name) and a.id in user)
                    if not raw:
                        return user
                    at = src(a)
                    guarded = FactDomain.has(facts, True, "hasattr(%s, '__round__')" % at) or FactDomain.has(facts, False, "not hasattr(%s, '__round__')" % at) or any(
                        f[0] is True and f[1].replace(' ', '').startswith('abs(%s)>=' % at.replace(' ', '')) for f in facts) or any(
                        f[0] is False and f[1].replace(' ', '').startswith('isinstance(%s,' % at.replace(' ', '')) and 'bool' in f[1] for f in facts)
                    key = '%s (line %d)' % (src(call)[:50], call.lineno)
                    found5[key] = (found5.get(key, (True,))[0] and (guarded or not lacking), call.lineno)
                return user
        Flow(G5()).run(fi.body(), {((frozenset(), None), frozenset())})
        for k, (ok, line) in sorted(found5.items()):
            n_round += 1
            rep.ob('R20.5', fi, k, ok, 'round() is applied to a raw element of the array; numpy.%s defines no __round__ (installed type stub), so a matrix of '
                   'that dtype makes disp() raise TypeError instead of returning the rendering' % (lacking[0] if lacking else '?'), line=line)
    rep.count('R20.5 round() calls on raw elements', n_round)
    rep.floor('R20.5', 'round() calls on raw elements', n_round, 1)

    # ---------------------------------------------------------------- R20.7
    # disp renders a Screw / Wrench (and lists of them) by reading `shape` and indexing the payload as `data[i, 0]` / `matrix[i][j]` over a
    # 6 x 1 grid: whatever array a Screw is built from, the payload it stores must be that 6 x 1 column.
    from ..engine.paths import paths_of
    rep.rule('R20.7', 'payload of a Screw / Wrench is stored as a 6x1 column on every path of Screw.__init__ (a reshape to (6,1), a (6,1) zero '
                      'column, or the argument itself only under the fact that its shape is (6,1)): disp indexes wrenches over that grid')
    screw_init = model.cls('basic_robotics.general.faser_screw', 'Screw').methods.get('__init__')
    if screw_init is None:
        raise AnalysisError('anchor vanished: Screw.__init__')
    dparam = screw_init.params[1]
    n_store = 0

    def column(text):
        e = ast.parse(text, mode='eval').body
        if isinstance(e, ast.Call) and isinstance(e.func, ast.Attribute) and e.func.attr == 'reshape':
            args = e.args[1:] if norm_text(e.func.value) in ('np', 'numpy') else e.args        # np.reshape(x, shape) / x.reshape(shape)
            a = args[0].elts if len(args) == 1 and isinstance(args[0], (ast.Tuple, ast.List)) else args
            return [norm_text(x) for x in a] in (['6', '1'], ['-1', '1'], ['6', '-1'])
        if isinstance(e, ast.Call) and norm_text(e.func) in ('np.zeros', 'np.ones', 'np.empty') and e.args:
            return norm_text(e.args[0]) in ('(6,1)', '((6,1))', '[6,1]')
        return False
    SHAPE_EQ = ('%s.shape==(6,1)' % dparam, '(6,1)==%s.shape' % dparam)
    from ..engine import peval as _pe7
    init_flat = _pe7.flatten({}, screw_init.node, depth=1, impure=True)      # conditional expressions become statements
    for pth in paths_of(init_flat, screw_init.params):
        stores = [e for e in pth.events if e[0] == 'store' and e[1] == 'self.data' and len(e) > 3]
        if not stores:
            rep.ob('R20.7', screw_init, 'self.data stored on every path', False, 'a path through Screw.__init__ stores no payload', shape=True)
            continue
        _k, _t, line, val = stores[-1]
        n_store += 1
        is_col = column(val)
        known_col = any(pth.facts.get(t) is True for t in SHAPE_EQ) or any(pth.facts.get('not' + t) is False for t in SHAPE_EQ) \
            or any(pth.facts.get(t.replace('==', '!=')) is False for t in SHAPE_EQ)
        raw_param = norm_text(ast.parse(val, mode='eval').body) == dparam
        rep.ob('R20.7', screw_init, 'self.data = %s' % val[:50], is_col or (raw_param and known_col),
               'on a path the payload is stored as `%s` without being brought to shape (6,1) and without a fact that it already has it: a Wrench built '
               'from a 1x6 row (or any other 6-value layout) keeps that layout while reporting shape (6,1), and disp(wrench) / disp([wrench, ...]) raise '
               'IndexError instead of returning the rendering' % val[:60], line=line)
    rep.floor('R20.7', 'payload stores of Screw.__init__', n_store, 2)

    # ---------------------------------------------------------------- R20.10
    # printTFlist reads the cells of a list of transforms / wrenches as `matrix[i][j]` and hands large ones to the builtin round(): what an
    # integer index of a tm / Screw returns must be an array SCALAR (the element read `payload[ind, 0]`, or a Python float made from it), which
    # implements __round__ - not an ndarray made from it (np.asarray / np.array / np.atleast_1d of the element formats like a number and
    # compares like one, but has no __round__: disp raises TypeError for entries of magnitude >= 9999)
    rep.rule('R20.10', 'indexing a transform or a screw / wrench with an integer returns the payload element itself (`payload[ind, 0]`, or float(...) of it): '
                       'an array scalar, on which printTFlist can call round()')
    n_gi = 0
    for cmod, cname, pay in (('basic_robotics.general.faser_transform', 'tm', 'self.TAA'), ('basic_robotics.general.faser_screw', 'Screw', 'self.data')):
        gi = model.cls(cmod, cname).methods.get('__getitem__')
        if gi is None:
            raise AnalysisError('anchor vanished: %s.__getitem__' % cname)
        indp = gi.params[1]
        for pth in paths_of(gi.node, gi.params):
            if pth.kind != 'return' or pth.ret is None:
                continue
            if pth.facts.get('isinstance(%s,slice)' % indp) is True:
                continue                                   # the slice path returns a view of the payload rows
            n_gi += 1
            r_ = pth.ret.replace(' ', '')
            elem = '%s[%s,0]' % (pay, indp)
            okf = r_ in (elem, 'float(%s)' % elem, '%s.item()' % elem, '%s[%s][0]' % (pay, indp), 'float(%s[%s][0])' % (pay, indp))
            wrapped = elem in r_ and any(w_ in r_ for w_ in ('np.asarray(', 'np.array(', 'np.atleast_1d(', 'np.asanyarray(', 'numpy.asarray(', 'numpy.array('))
            rep.ob('R20.10', gi, '%s[int] returns %s' % (cname, r_[:60]), okf,
                   '%s.__getitem__ returns %s for an integer index: %s' % (cname, r_[:60],
                       'an ndarray wrapped around the element - it has no __round__, so disp of a list of %s objects with an entry of magnitude >= 9999 raises '
                       'TypeError instead of returning the table' % ('transform' if cname == 'tm' else 'wrench / screw') if wrapped else 'not recognised as the payload element'),
                   shape=not wrapped and not okf, line=pth.ret_line)
    rep.floor('R20.10', 'integer-index returns of tm / Screw __getitem__', n_gi, 2)

    # ---------------------------------------------------------------- R20.9
    # tm.__getitem__ reads `self.TAA[k, 0]`: a list of transforms is rendered through it, so the six-vector must be a 6x1 COLUMN whenever a
    # method of tm returns.  TAAtoTM() brings whatever was stored to (6, 1); a whole store of self.TAA must be followed by it on the path,
    # or store a value that is a column by construction.
    rep.rule('R20.9', 'every whole store of self.TAA in class tm is a 6x1 column by construction or is followed by TAAtoTM() (which reshapes it) on every '
                      'path: indexing a transform - how disp renders lists of transforms - never meets a flat six-vector')
    tmc9 = model.cls('basic_robotics.general.faser_transform', 'tm')
    t2 = tmc9.methods.get('TAAtoTM')
    if t2 is None:
        raise AnalysisError('anchor vanished: tm.TAAtoTM')
    il_t2 = Inliner(t2)
    norm_ok = any(isinstance(a_, ast.Assign) and norm_text(a_.targets[0]) == 'self.TAA' and norm_text(il_t2.expand(a_.value)) in (
        'self.TAA.reshape((6,1))', 'self.TAA.reshape(6,1)', 'np.reshape(self.TAA,(6,1))', 'self.TAA.reshape((-1,1))', 'self.TAA.reshape(-1,1)') for a_ in walk_own(t2.node))
    rep.ob('R20.9', t2, 'TAAtoTM brings the six-vector to shape (6, 1)', norm_ok, 'TAAtoTM no longer reshapes self.TAA to a column: flat six-vectors handed to sTAA / set stay flat')

    def column9(text):
        try:
            e = ast.parse(text, mode='eval').body
        except SyntaxError:
            return False
        while isinstance(e, ast.Call) and isinstance(e.func, ast.Attribute) and e.func.attr in ('copy', 'astype') :
            e = e.func.value
        if isinstance(e, ast.Call) and isinstance(e.func, ast.Attribute) and e.func.attr == 'reshape':
            args = e.args[1:] if norm_text(e.func.value) in ('np', 'numpy') else e.args
            a = args[0].elts if len(args) == 1 and isinstance(args[0], (ast.Tuple, ast.List)) else args
            return [norm_text(x) for x in a] in (['6', '1'], ['-1', '1'], ['6', '-1'])
        if isinstance(e, ast.Call) and norm_text(e.func) in ('np.zeros', 'np.ones', 'np.empty') and e.args:
            return norm_text(e.args[0]) in ('(6,1)', '((6,1))', '[6,1]')
        if isinstance(e, ast.Call) and norm_text(e.func) in ('np.vstack', 'numpy.vstack') and e.args and isinstance(e.args[0], (ast.Tuple, ast.List)):
            return all('reshape((3,1))' in norm_text(x) or 'reshape(3,1)' in norm_text(x) or norm_text(x).endswith('[0:3]') or norm_text(x).endswith('[3:6]') for x in e.args[0].elts)
        if isinstance(e, ast.Attribute) and e.attr == 'TAA' and not (isinstance(e.value, ast.Name) and e.value.id == 'self'):
            return True                     # the six-vector of another transform (a column by this very invariant)
        if isinstance(e, ast.Call) and isinstance(e.func, ast.Attribute) and e.func.attr == 'gTAA':
            return True
        return False
    n9 = 0
    for name9, fi9 in sorted(tmc9.methods.items()):
        if name9 == 'TAAtoTM' or not any(isinstance(a_, ast.Assign) and any(norm_text(t_) == 'self.TAA' for t_ in a_.targets) for a_ in walk_own(fi9.node)):
            continue
        from .common_ops import flat_method as _fm9
        flat9 = _pe7.flatten({}, _fm9(tmc9, name9).node, depth=1, impure=True)       # private helpers of the class read in place
        try:
            ps9 = paths_of(flat9, fi9.params)
        except RuntimeError:
            continue
        bad9 = None
        for pth in ps9:
            if pth.kind not in ('return', 'fall'):
                continue
            evs = pth.events
            last = max((i_ for i_, e_ in enumerate(evs) if e_[0] == 'store' and e_[1] == 'self.TAA' and len(e_) > 3), default=None)
            if last is None:
                continue
            n9 += 1
            synced = any(e_[0] == 'call' and e_[1] in ('self.TAAtoTM', 'self.TMtoTAA') for e_ in evs[last + 1:])
            if not synced and not column9(evs[last][3]):
                bad9 = (evs[last][2], evs[last][3])
                break
        rep.ob('R20.9', fi9, '%s: self.TAA left as a column on every path' % name9, bad9 is None,
               ('on a path %s ends with self.TAA = %s - not a (6, 1) column by construction and not followed by TAAtoTM(): a flat six-vector given by the caller stays '
                'flat, tm.__getitem__ (`self.TAA[k, 0]`) then raises IndexError, and disp([transform, ...]) fails instead of returning the table' % (name9, bad9[1][:50])) if bad9 else 'ok',
               line=bad9[0] if bad9 else None)
    rep.floor('R20.9', 'paths storing the six-vector', n9, 6)

    # ---------------------------------------------------------------- R20.8
    # the table of a list of transforms is filled cell by cell through `matrix[i][j]`, i.e. tm.__getitem__: what is shown is what it returns
    rep.rule('R20.8', 'indexing a transform returns the entry of its six-vector unchanged (printTFlist renders lists of transforms cell by cell '
                      'through tm.__getitem__: a value filtered or snapped there is shown wrongly, NaN as 0)')
    gi = model.cls('basic_robotics.general.faser_transform', 'tm').methods.get('__getitem__')
    if gi is None:
        raise AnalysisError('anchor vanished: tm.__getitem__')
    il_gi = Inliner(gi)
    reads = [il_gi.text(r_.value, canon=False) for r_ in walk_own(gi.node) if isinstance(r_, ast.Return) and r_.value is not None]
    okg = bool(reads) and all(t_.startswith('self.TAA[') and t_.endswith(']') and t_.count('[') == 1 for t_ in reads)
    rep.ob('R20.8', gi, 'tm.__getitem__ returns self.TAA[...]', okg, 'tm.__getitem__ returns %s: entries are altered between the transform and the display' % reads)
