"""C18 - geometric helper functions satisfy their defining relations.

Decided statically:
  R18.1 plane convention (exact polynomials): planeFromThreePoints returns (a,b,c,d) with n.p - d == 0 for the
        three points (identities); mirror uses the SAME sign convention for d (its numerator is the negated
        plane residual), divides by |n|^2 and returns p + 2k n; the mirror plane is the frame's local XY
        plane (origin, origin + x, origin + y).
  R18.2 angle-wrapping siblings (mr.AngleMod, fsr.angleMod x3 branches, tm.angleMod): guard threshold and
        modulus both constant-fold to 2*pi.
  R18.3 Lie kinds: every call of exp/log/hat/vee in the helper modules receives an argument of the kind the
        primitive is defined on (log of a rotation, not of a scaled rotation; ...) - known-wrong only.
  R18.4 IKPath: (steps-1) generated poses initial + delta*i with delta = (goal-initial)/(steps-1), then the goal
        (count = steps, even spacing, ends at the goal); closeLinearGap returns origin + unit(goal-origin)*delta;
        interpolated midpoint has the mean position and rotation exp(log(R2 R1^T)/2) R1; arcDistance is the
        norm of the relative pose; lookAt keeps the position and builds a right-handed frame whose z is the
        normalised direction to the target.
  R18.5 sphere samplers: x^2+y^2+z^2 == 1 as a trigonometric-polynomial identity.
  R18.6 chainJacobian mirrors the JacobianSpace recurrence (column 0 = screw 0; T accumulates
        exp(theta[i-1] * screw[i-1]); column i = Ad(T) screw i).
Not decided: geodesic half-way as numbers, metric axioms, optimiser-based rotationFromVector.
"""
import ast
import math

from ..engine.model import AnalysisError, src, walk_own, const_value
from ..engine.poly import Poly
from ..engine.polyinterp import PolyInterp, Uninterp
from ..engine.kinds import Kinds
from ..engine import tv
from ..engine.inline import Inliner, norm_text
from .c06 import assigns_of, resolve, returns_of

GEN = 'basic_robotics.general.'
FSR, HELP, TMM = GEN + 'faser_general', GEN + 'basic_helpers', GEN + 'faser_transform'
PORT = 'basic_robotics.modern_robotics_numba.modern_high_performance'


def fold_const(e):
    """constant-fold an expression made of numbers and np.pi"""
    if isinstance(e, ast.Constant) and isinstance(e.value, (int, float)):
        return float(e.value)
    if isinstance(e, ast.Attribute) and e.attr == 'pi':
        return math.pi
    if isinstance(e, ast.BinOp):
        a, b = fold_const(e.left), fold_const(e.right)
        if a is None or b is None:
            return None
        if isinstance(e.op, ast.Mult):
            return a * b
        if isinstance(e.op, ast.Div):
            return a / b
        if isinstance(e.op, ast.Add):
            return a + b
        if isinstance(e.op, ast.Sub):
            return a - b
    return None



# ---------------------------------------------------------------------------------------------------------------------
# lookAt, decided structurally (fallback of the reference comparison): on every returning path the result is tm(M) with
#   M[0:3, 3] = position of the first pose,  M[0:3, 0:3] = columns (x, y, z),
#   z = unit(target - position), y = z x x, and x a unit vector orthogonal to z:
#     x = unit(u x z) for a constant u (generic heading), or - only on a path whose facts say |u x z| is (near) zero, i.e.
#     z is parallel to u - a constant unit vector orthogonal to u.
# A right-handed orthonormal triple with the third column at the target is exactly "a proper rotation's local z at the target".
def _p(text):
    try:
        return ast.parse(text, mode='eval').body
    except SyntaxError:
        return None


def _tail(call):
    return norm_text(call.func).split('.')[-1] if isinstance(call, ast.Call) else None


def _strip(e):
    while True:
        if isinstance(e, ast.Call) and isinstance(e.func, ast.Attribute) and e.func.attr in ('flatten', 'copy', 'reshape', 'ravel', 'squeeze'):
            e = e.func.value
        elif isinstance(e, ast.Call) and _tail(e) in ('asarray', 'array') and len(e.args) == 1 and not isinstance(e.args[0], (ast.List, ast.Tuple)):
            e = e.args[0]
        else:
            return e


def _is_pos(e, prm):
    t = norm_text(_strip(e))
    return t in ('%s[0:3]' % prm, '%s[:3]' % prm, '%s.TAA[0:3]' % prm, '%s.gTAA()[0:3]' % prm, '%s.TM[0:3,3]' % prm, '%s.gTM()[0:3,3]' % prm)


def _cv(e):
    try:
        return const_value(e)
    except ValueError:
        return None


def _const_vec(e):
    e = _strip(e)
    if isinstance(e, ast.Call) and _tail(e) in ('array', 'asarray') and e.args:
        e = e.args[0]
    if isinstance(e, (ast.List, ast.Tuple)) and len(e.elts) == 3:
        try:
            return [float(ast.literal_eval(x)) for x in e.elts]
        except (ValueError, TypeError, SyntaxError):
            return None
    return None


def look_struct(fi):
    """-> ('ok' | 'bad' | 'shape', message)"""
    from ..engine.paths import paths_of
    if len(fi.params) < 2:
        return 'shape', 'lookAt takes two poses'
    a, b = fi.params[0], fi.params[1]
    n_ret = 0
    from ..engine import peval as _pe
    mod_funcs = {n_.name: n_ for n_ in fi.module.tree.body if isinstance(n_, ast.FunctionDef)}
    flat = _pe.flatten_function(mod_funcs, fi.node, depth=2, impure=True)        # private module-level helpers inlined
    for pth in paths_of(flat, fi.params):
        if pth.kind != 'return' or pth.ret_src is None:
            return 'bad', 'a path through lookAt returns nothing'
        n_ret += 1
        r = _p(pth.ret_src)
        if not (isinstance(r, ast.Call) and _tail(r) == 'tm' and len(r.args) == 1):
            return 'shape', 'the result is not tm(<4x4>) (line %s)' % pth.ret_line
        base = norm_text(r.args[0])
        last = {}
        for e in pth.events:
            if e[0] == 'store' and len(e) > 3 and e[1].startswith(base + '['):
                last[e[1][len(base):]] = e[3]
        handler = any(e[0] == 'except' for e in pth.events)
        pos = last.get('[0:3,3]') or last.get('[:3,3]')
        if pos is None or _p(pos) is None:
            return 'shape', 'no store to the position column of the result (line %s)' % pth.ret_line
        if not _is_pos(_p(pos), a):
            return 'bad', 'the position column of the result is %s, not the position of the first pose' % pos[:60]
        rot = last.get('[0:3,0:3]') or last.get('[:3,:3]')
        cols = None
        if rot is not None:
            m = _p(rot)
            if isinstance(m, ast.Attribute) and m.attr == 'T':
                m = ('T', m.value)
            elif isinstance(m, ast.Call) and isinstance(m.func, ast.Attribute) and m.func.attr == 'transpose' and not m.args:
                m = ('T', m.func.value)
            elif isinstance(m, ast.Call) and _tail(m) == 'transpose' and len(m.args) == 1:
                m = ('T', m.args[0])
            elif isinstance(m, ast.Call) and _tail(m) == 'column_stack' and len(m.args) == 1:
                m = ('C', m.args[0])
            else:
                m = ('R', m)
            body = m[1]
            if m[0] in ('T', 'R') and isinstance(body, ast.Call) and _tail(body) in ('array', 'asarray', 'vstack') and body.args:
                body = body.args[0]
            if isinstance(body, (ast.List, ast.Tuple)) and len(body.elts) == 3:
                if m[0] == 'R':
                    return 'bad', 'the frame axes are stored as rows of the rotation block (the transposed rotation), line %s' % pth.ret_line
                cols = list(body.elts)
        elif all(('[0:3,%d]' % k) in last for k in range(3)):
            cols = [_p(last['[0:3,%d]' % k]) for k in range(3)]
        if not cols or any(c is None for c in cols):
            return 'shape', 'rotation block of the result not recognised as three columns (line %s)' % pth.ret_line
        X, Y, Z = cols
        # z = unit(target - position)
        zok = False
        if isinstance(Z, ast.Call) and _tail(Z) == 'Normalize' and len(Z.args) == 1 and isinstance(Z.args[0], ast.BinOp) and isinstance(Z.args[0].op, ast.Sub):
            T, P = Z.args[0].left, Z.args[0].right
            if _is_pos(P, a):
                if _is_pos(T, b):
                    zok = True
                elif handler and isinstance(T, ast.BinOp) and isinstance(T.op, ast.Add) and _is_pos(T.left, b):
                    nudge = _const_vec(T.right)
                    zok = nudge is not None and max(abs(v) for v in nudge) <= 1e-4     # the degenerate-heading retry of an except handler
        if not zok:
            return 'bad', 'third column is %s, not unit(position of the second pose - position of the first)' % norm_text(Z)[:80]
        zt = norm_text(Z)
        # y = z x x
        if not (isinstance(Y, ast.Call) and _tail(Y) == 'cross' and len(Y.args) == 2 and norm_text(Y.args[0]) == zt and norm_text(Y.args[1]) == norm_text(X)):
            return 'bad', ('second column is %s, not cross(z, x) of the columns beside it: the triple is not right-handed for every '
                           'direction of z (line %s)' % (norm_text(Y)[:60], pth.ret_line))
        # x: unit(u x z), or a constant unit vector orthogonal to u under the fact |u x z| ~ 0
        xok = False
        if isinstance(X, ast.Call) and _tail(X) == 'Normalize' and len(X.args) == 1 and isinstance(X.args[0], ast.Call) and _tail(X.args[0]) == 'cross' \
                and len(X.args[0].args) == 2 and norm_text(X.args[0].args[1]) == zt:
            u = _const_vec(X.args[0].args[0])
            xok = u is not None and any(v != 0 for v in u)
            if not xok:
                return 'bad', 'first column: heading reference %s is not a constant non-zero vector' % norm_text(X.args[0].args[0])[:50]
        else:
            xc = _const_vec(X)
            if xc is None:
                return 'bad', 'first column %s is neither unit(u x z) nor a constant vector' % norm_text(X)[:60]
            if abs(math.sqrt(sum(v * v for v in xc)) - 1.0) > 1e-12:
                return 'bad', 'first column %s is not a unit vector' % xc
            for key, truth in pth.facts.items():
                f = _p(pth.fact_src.get(key, key))
                if f is None:
                    continue
                degenerate = None
                if isinstance(f, ast.Call) and _tail(f) == 'NearZero' and len(f.args) == 1 and truth:
                    degenerate = f.args[0]
                elif isinstance(f, ast.Compare) and len(f.ops) == 1:
                    l_, r_ = f.left, f.comparators[0]
                    op = type(f.ops[0])
                    if _cv(l_) is not None and _cv(r_) is None:
                        l_, r_ = r_, l_
                        op = {ast.Lt: ast.Gt, ast.LtE: ast.GtE, ast.Gt: ast.Lt, ast.GtE: ast.LtE}.get(op, op)
                    eps = _cv(r_)
                    if isinstance(eps, (int, float)) and 0 <= eps <= 1e-3 and ((op in (ast.Lt, ast.LtE) and truth) or (op in (ast.Gt, ast.GtE) and not truth)):
                        degenerate = l_
                if isinstance(degenerate, ast.Call) and _tail(degenerate) in ('Norm', 'norm') and degenerate.args:
                    c = degenerate.args[0]
                    if isinstance(c, ast.Call) and _tail(c) == 'cross' and len(c.args) == 2:
                        us = [_const_vec(c.args[k]) for k in (0, 1) if norm_text(c.args[1 - k]) == zt]
                        if us and us[0] is not None and any(us[0]) and abs(sum(p_ * q_ for p_, q_ in zip(us[0], xc))) < 1e-12:
                            xok = True
            if not xok:
                return 'bad', ('first column is the constant %s on a path that does not establish that z is parallel to a constant axis '
                               'orthogonal to it (line %s)' % (xc, pth.ret_line))
    if not n_ret:
        return 'shape', 'no returning path'
    return 'ok', '%d returning paths: position kept, z = unit(target - position), x orthogonal unit, y = z x x' % n_ret


# ---------------------------------------------------------------------------------------------------------------------
# numericalJacobian: every difference quotient is central and divided by twice the step
def central_differences(fi, module_funcs=None):
    """-> (quotients found, [(lineno, problem)]) for the finite-difference driver `fi(handle, x, step)`; module-level helpers that are
    handed the handle, the point and the step are analysed with their own parameter names.
    A quotient is `(h(P) - h(M)) / D` with h the handle.  Required: D == 2 * step; P and M are the point moved by +step / -step in the
    SAME coordinate: either two copies of x with `P[k] = P[k] + step`, `M[k] = M[k] - step` (same index texts, nothing else stored
    into them), or `x + S` / `x - S` with one step vector S built from the step."""
    if len(fi.params) < 3:
        return 0, [(fi.node.lineno, 'numericalJacobian takes (handle, point, step)')]
    n_all, probs_all = _central_differences(fi.node, fi.params[0], fi.params[1], fi.params[2])
    # helpers of the module that receive the handle
    for c in ast.walk(fi.node):
        if isinstance(c, ast.Call) and isinstance(c.func, ast.Name) and module_funcs and c.func.id in module_funcs and c.func.id != fi.name:
            hf = module_funcs[c.func.id]
            names = [a_.arg for a_ in hf.args.args]
            role = {}
            for k_, a_ in enumerate(c.args):
                if isinstance(a_, ast.Name) and a_.id in fi.params[:3] and k_ < len(names):
                    role[a_.id] = names[k_]
            if all(p_ in role for p_ in fi.params[:3]):
                n_h, p_h = _central_differences(hf, role[fi.params[0]], role[fi.params[1]], role[fi.params[2]])
                n_all += n_h
                probs_all += p_h
    return n_all, probs_all


class _FnView:
    def __init__(self, node):
        self.node = node


def _central_differences(fnode, h, x, d):
    fi = _FnView(fnode)
    defs = {}
    for n in ast.walk(fi.node):
        if isinstance(n, ast.Assign) and len(n.targets) == 1 and isinstance(n.targets[0], ast.Name):
            defs.setdefault(n.targets[0].id, []).append(n.value)

    def res(e, depth=0):
        """single-definition locals replaced by their definition (for recognising 2 * step / step vectors)"""
        if isinstance(e, ast.Name) and e.id not in (h, x, d) and len(defs.get(e.id, [])) == 1 and depth < 4:
            return res(defs[e.id][0], depth + 1)
        return e

    def deep(e, depth=0):
        """like res, inside an expression: every single-definition local in it replaced by its definition"""
        import copy as _copy

        class T(ast.NodeTransformer):
            def visit_Name(s_, n):
                if isinstance(n.ctx, ast.Load) and n.id not in (h, x, d) and len(defs.get(n.id, [])) == 1 and depth < 4 \
                        and not isinstance(defs[n.id][0], (ast.Lambda,)):
                    return deep(defs[n.id][0], depth + 1)
                return n
        return T().visit(_copy.deepcopy(e))

    def is_copy_of_x(e):
        e = res(e)
        t = norm_text(e)
        if t == x:
            return True
        if isinstance(e, ast.Call):
            tail = norm_text(e.func).split('.')[-1]
            if tail in ('copy', 'array', 'asarray', 'astype', 'asfarray', 'ascontiguousarray', 'deepcopy'):
                inner = e.func.value if (isinstance(e.func, ast.Attribute) and norm_text(e.func.value) not in ('np', 'numpy', 'copy')) else (e.args[0] if e.args else None)
                return inner is not None and is_copy_of_x(inner)
        return False
    problems, n_q = [], 0
    for q in ast.walk(fi.node):
        if not (isinstance(q, ast.BinOp) and isinstance(q.op, ast.Div) and isinstance(q.left, ast.BinOp) and isinstance(q.left.op, ast.Sub)):
            continue
        a, b = res(q.left.left), res(q.left.right)            # the two probe values may have been named
        if not (isinstance(a, ast.Call) and isinstance(b, ast.Call) and norm_text(a.func) == h and norm_text(b.func) == h and len(a.args) == 1 and len(b.args) == 1):
            continue
        n_q += 1
        D = norm_text(res(q.right))
        D_deep = norm_text(deep(q.right))

        def twice(D_, s_):
            return D_ in ('2*%s' % s_, '%s*2' % s_, '2.0*%s' % s_, '%s*2.0' % s_, '%s+%s' % (s_, s_), '(2*%s)' % s_, '2*(%s)' % s_, '(%s)*2' % s_,
                          '2.0*(%s)' % s_, '(%s)*2.0' % s_)
        disp = set()            # displacement(s) the element-store probes are moved by (resolved texts)
        d_problem = None if (twice(D, d) or twice(D_deep, d)) else 'the difference of the two probes is divided by %s, not by twice the step %s' % (D, d)
        P, M = a.args[0], b.args[0]
        # probes that are parameters of a local helper: what the helper is called with
        encl = next((f_ for f_ in ast.walk(fi.node) if isinstance(f_, (ast.FunctionDef, ast.Lambda)) and f_ is not fi.node
                     and any(n_ is q for n_ in ast.walk(f_))), None)
        pairs = [(P, M)]
        if encl is not None and isinstance(P, ast.Name) and isinstance(M, ast.Name):
            names = [a_.arg for a_ in encl.args.args]
            if P.id in names and M.id in names:
                hname = encl.name if isinstance(encl, ast.FunctionDef) else next((k_ for k_, v_ in defs.items() if any(x_ is encl for x_ in v_)), None)
                sites = [c for c in ast.walk(fi.node) if isinstance(c, ast.Call) and isinstance(c.func, ast.Name) and c.func.id == hname
                         and len(c.args) > max(names.index(P.id), names.index(M.id))]
                pairs = [(c.args[names.index(P.id)], c.args[names.index(M.id)]) for c in sites] or pairs
        for P, M in pairs:
          if isinstance(P, ast.Name) and isinstance(M, ast.Name) and P.id != M.id:
              moved = {}
              for nm, sign in ((P.id, ast.Add), (M.id, ast.Sub)):
                  idx = set()
                  for n in ast.walk(fi.node):
                      tgt = val = None
                      if isinstance(n, ast.Assign) and len(n.targets) == 1 and isinstance(n.targets[0], ast.Subscript) and norm_text(n.targets[0].value) == nm:
                          tgt, val = n.targets[0], n.value
                          ok = isinstance(val, ast.BinOp) and isinstance(val.op, sign) and norm_text(val.left) == norm_text(tgt)
                          if ok:
                              disp.add(norm_text(deep(val.right)))
                      elif isinstance(n, ast.AugAssign) and isinstance(n.target, ast.Subscript) and norm_text(n.target.value) == nm:
                          tgt = n.target
                          ok = isinstance(n.op, sign)
                          if ok:
                              disp.add(norm_text(deep(n.value)))
                      else:
                          continue
                      if not ok:
                          problems.append((n.lineno, 'probe point `%s` is moved by `%s`, not by %s%s in one coordinate' % (
                              nm, norm_text(n)[:60], '+' if sign is ast.Add else '-', d)))
                      idx.add(norm_text(tgt.slice))
                  if not idx:
                      problems.append((q.lineno, 'probe point `%s` is never moved off the evaluation point' % nm))
                  moved[nm] = idx
                  for v in defs.get(nm, []):
                      if not is_copy_of_x(v):
                          problems.append((v.lineno, 'probe point `%s` does not start as a copy of the evaluation point %s (%s)' % (nm, x, norm_text(v)[:50])))
                  if not defs.get(nm):
                      problems.append((q.lineno, 'probe point `%s` is not a local copy of the evaluation point' % nm))
              if moved.get(P.id) != moved.get(M.id):
                  problems.append((q.lineno, 'the two probes are moved in different coordinates (%s vs %s)' % (sorted(moved.get(P.id, ())), sorted(moved.get(M.id, ())))))
          elif isinstance(P, ast.BinOp) and isinstance(M, ast.BinOp):
              okp = isinstance(P.op, ast.Add) and is_copy_of_x(P.left)
              okm = isinstance(M.op, ast.Sub) and is_copy_of_x(M.left)
              same = norm_text(P.right) == norm_text(M.right)
              if not (okp and okm and same):
                  problems.append((q.lineno, 'probes are %s and %s, not the evaluation point plus / minus one step vector' % (norm_text(P)[:40], norm_text(M)[:40])))
              else:
                  S = P.right
                  base = S.value if isinstance(S, ast.Subscript) else S
                  if isinstance(base, ast.Name) and base.id in {a_.arg for f_ in ast.walk(fi.node) if isinstance(f_, (ast.FunctionDef, ast.Lambda)) and f_ is not fi.node for a_ in f_.args.args}:
                      # a parameter of a local helper: look at what the helper is called with
                      calls = [c for c in ast.walk(fi.node) if isinstance(c, ast.Call) and isinstance(c.func, ast.Name) and c.args
                               and any(isinstance(f_, ast.FunctionDef) and f_.name == c.func.id and f_ is not fi.node for f_ in ast.walk(fi.node))]
                      bases = [c.args[0].value if isinstance(c.args[0], ast.Subscript) else c.args[0] for c in calls]
                  else:
                      bases = [base]
                  for b_ in bases:
                      t = norm_text(res(b_))
                      if not (d in [m_.id for m_ in ast.walk(res(b_)) if isinstance(m_, ast.Name)] and ('eye' in t or 'identity' in t)):
                          problems.append((q.lineno, 'step vector %s is not a row of step * identity' % t[:50]))
          else:
              problems.append((q.lineno, 'probe arguments %s / %s not recognised' % (norm_text(P)[:30], norm_text(M)[:30])))
        # the quotient divides by twice the displacement the probes were actually given (the step parameter, or one step expression used on
        # both sides, e.g. a step scaled with the coordinate)
        if disp:
            if len(disp) > 1:
                problems.append((q.lineno, 'the two probes are displaced by different amounts (%s): the quotient is not a central difference' % ' / '.join(sorted(disp))[:120]))
            else:
                s_ = next(iter(disp))
                if not (twice(D, s_) or twice(D_deep, s_)):
                    problems.append((q.lineno, 'the probes are displaced by %s but their difference is divided by %s, not by twice that displacement: the column of every '
                                               'coordinate for which the two differ is scaled' % (s_[:60], D)))
        elif d_problem:
            problems.append((q.lineno, d_problem))
    return n_q, problems

def wrap_store_rule(model, rep, rule):
    """Shared by C18 (angle wrapping preserves the angle modulo 2*pi), C07 and C13 (Arm.FK / Arm.IK store and evaluate the joint vector that
    fsr.angleMod wrapped in place)."""
    HELP_ = 'basic_robotics.general.basic_helpers'
    PORT_ = 'basic_robotics.modern_robotics_numba.modern_high_performance'
    TMM_ = 'basic_robotics.general.faser_transform'
    sib = [model.func(PORT_, 'AngleMod'), model.func(HELP_, 'angleMod'), model.func(TMM_, 'tm.angleMod')]
    # ... and what replaces an angle IS its remainder: the element / value is stored back as `a % m` (Python's remainder, np.mod, np.remainder:
    # result in [0, m) and congruent to a), not a function of it (np.fmod keeps the sign of the dividend, so abs(fmod(a, m)) mirrors angles below
    # -m; sign(a) * (a % m) is not congruent to a for a < -m)
    n_st = 0
    MODF = ('np.mod', 'np.remainder', 'numpy.mod', 'numpy.remainder', 'np.fmod', 'numpy.fmod', 'math.fmod')

    def remainder_of(v, tt):
        """'same' when v is the angle itself, True when v is its remainder (or a selection between the remainder and the angle), else False"""
        if norm_text(v) == tt:
            return 'same'
        if isinstance(v, ast.BinOp) and isinstance(v.op, ast.Mod) and norm_text(v.left) == tt:
            return True
        if isinstance(v, ast.Call) and norm_text(v.func) in MODF and len(v.args) == 2 and norm_text(v.args[0]) == tt:
            return True
        arms = None
        if isinstance(v, ast.IfExp):
            arms = (v.body, v.orelse)
        elif isinstance(v, ast.Call) and norm_text(v.func) in ('np.where', 'numpy.where') and len(v.args) == 3:
            arms = (v.args[1], v.args[2])
        if arms is not None:
            rs = [remainder_of(a_, tt) for a_ in arms]
            return all(r_ in (True, 'same') for r_ in rs) and any(r_ is True for r_ in rs)
        return False
    for fi in sib:
        angle = fi.params[0] if fi.params and fi.params[0] != 'self' else None
        il_ = Inliner(fi)
        for st in walk_own(fi.node):
            if isinstance(st, ast.AugAssign):
                tgt, val, aug = st.target, st.value, st.op
            elif isinstance(st, ast.Assign) and len(st.targets) == 1:
                tgt, val, aug = st.targets[0], st.value, None
            elif isinstance(st, ast.Return) and st.value is not None and angle is not None:
                tgt, val, aug = ast.Name(id=angle, ctx=ast.Load()), st.value, None         # the value handed back for the angle
            else:
                continue
            b = tgt
            while isinstance(b, ast.Subscript):
                b = b.value
            holds_angle = (isinstance(b, ast.Name) and b.id == angle) or (angle is None and norm_text(b) == 'self.TAA')
            if not holds_angle:
                continue
            tt = norm_text(tgt)
            mentions = any(norm_text(x) == tt for x in ast.walk(val)) or (isinstance(b, ast.Name) and any(isinstance(x, ast.Name) and x.id == b.id for x in ast.walk(val)))
            if aug is None and not mentions:
                continue                          # a conversion / re-binding that does not compute from the angle
            if aug is not None:
                ok = isinstance(aug, ast.Mod)
            else:
                r_ = remainder_of(val, tt)
                if r_ == 'same':
                    continue                      # the angle itself is handed back / stored back
                ok = r_ is True
            n_st += 1
            rep.ob(rule, fi, src(st)[:80], ok,
                   'the angle %s is replaced by %s, which is not its remainder modulo 2*pi (`a %% m`, np.mod, np.remainder, fmod): for some angles beyond the threshold '
                   '(e.g. below -2*pi when the sign of the dividend is kept or restored) the result is not congruent to the input - the rotation changes'
                   % (tt, norm_text(val)[:70]), line=st.lineno)
    rep.floor(rule, 'angle stores of the wrap siblings', n_st, 3)


def check(model, rep):
    rep.extra['explanation'] = (
        'Exact polynomial identities for the plane / mirror / sphere helpers, constant folding of the angle-wrapping '
        'siblings, Lie-kind typing of every exp/log/hat/vee call site in the helper modules, and structural (count / '
        'spacing / index-offset / handedness) rules for the path, gap, midpoint, look-at and chain-Jacobian helpers.')

    def F(mod, name):
        return model.func(mod, name)

    # ---------------------------------------------------------------- R18.1
    rep.rule('R18.1', 'plane through three points contains them (n.p - d == 0); mirror uses the same sign of d, |n|^2, p + 2kn; '
                      'mirror plane = local XY plane of the frame')
    from .common_ops import flat_function as _ff18
    pf = _ff18(F(FSR, 'planeFromThreePoints'))           # module-private helpers read in place
    it = PolyInterp()
    pts = []
    for k, p in enumerate(pf.params):
        it.env[p] = [Poly.sym('p%d_%d' % (k + 1, i)) for i in range(3)] + [Poly.sym('r%d_%d' % (k + 1, i)) for i in range(3)]
        pts.append(it.env[p][0:3])
    try:
        out = it.run(pf.body())
    except Uninterp as e:
        raise AnalysisError('planeFromThreePoints can no longer be interpreted: %s' % e)
    if not (isinstance(out, list) and len(out) == 4):
        raise AnalysisError('planeFromThreePoints does not return four plane coefficients')
    a, b, c, d = out
    sign = None
    for s in (-1, 1):
        if all((a * P[0] + b * P[1] + c * P[2] + d * s) == Poly() for P in pts):
            sign = s
    rep.ob('R18.1', pf, 'a x + b y + c z %s d == 0 at the three points' % ('-' if sign == -1 else '+' if sign == 1 else '?'),
           sign is not None, 'the returned plane does not contain the three points under either sign convention of d')
    nonzero = not (a == Poly() and b == Poly() and c == Poly())
    rep.ob('R18.1', pf, 'normal is a cross product of two edge vectors', nonzero, 'plane normal is identically zero')
    mf = F(FSR, 'mirror')
    origin_p, point_p = mf.params[0], mf.params[1]

    def hook(itp, call, name):
        if name == 'planeFromThreePoints':
            return [Poly.sym('a'), Poly.sym('b'), Poly.sym('c'), Poly.sym('d')]
        if name == 'planePointsFromTransform':
            return ['T1', 'T2', 'T3']
        if name == 'tm' and call.args:
            v = itp.ev(call.args[0])
            if isinstance(v, list):
                return v
        return None
    im = PolyInterp(call_hook=hook)
    im.env[point_p] = [Poly.sym('x1'), Poly.sym('y1'), Poly.sym('z1')]
    im.env[origin_p] = 'ORIGIN'
    ok_mirror = False
    msg = ''
    try:
        from ..engine import peval as _pe
        mflat = _pe.flatten_function(tv.toplevel_funcs(mf.module.tree), mf.node, impure=True)      # private helpers inlined
        body = [s for s in mflat.body if not (isinstance(s, ast.Expr) and isinstance(s.value, ast.Constant))]
        # tolerate the tuple-of-transforms assignments
        stmts = []
        for s in body:
            if isinstance(s, ast.Assign) and isinstance(s.value, ast.Call) and src(s.value.func) in ('planePointsFromTransform',):
                continue
            if isinstance(s, ast.Assign) and isinstance(s.value, ast.Call) and src(s.value.func) == 'planeFromThreePoints':
                im.bind(s.targets[0], [Poly.sym('a'), Poly.sym('b'), Poly.sym('c'), Poly.sym('d')])
                continue
            stmts.append(s)
        res = im.run(stmts)
        if sign is not None and isinstance(res, list) and len(res) >= 3 and len(im.quotients) == 1:
            (q, (N, D)), = im.quotients.items()
            x1, y1, z1 = Poly.sym('x1'), Poly.sym('y1'), Poly.sym('z1')
            A, B, C, Dd = Poly.sym('a'), Poly.sym('b'), Poly.sym('c'), Poly.sym('d')
            resid = A * x1 + B * y1 + C * z1 + Dd * sign
            ok_N = N == -resid
            ok_D = D == A * A + B * B + C * C
            k = Poly.sym(q)
            ok_pt = res[0] == x1 + A * k * 2 and res[1] == y1 + B * k * 2 and res[2] == z1 + C * k * 2
            ok_rot = all(r == Poly() for r in res[3:6]) if len(res) >= 6 else True
            ok_mirror = ok_N and ok_D and ok_pt and ok_rot
            if not ok_N:
                msg = ('mirror computes k from %s, but the plane returned by planeFromThreePoints satisfies a x + b y + c z %s d = 0: '
                       'the offset d enters with the wrong sign, so only planes through the world origin are mirrored correctly'
                       % (N, '-' if sign == -1 else '+'))
            elif not ok_D:
                msg = 'k is not divided by |n|^2 = a^2+b^2+c^2'
            elif not ok_pt:
                msg = 'reflected point is not p + 2 k n'
        else:
            msg = 'mirror is not of the form k = N/|n|^2, p\' = p + 2kn'
    except Uninterp as e:
        raise AnalysisError('mirror can no longer be interpreted: %s' % e)
    rep.ob('R18.1', mf, 'k = -(n.p %s d)/|n|^2 ; p\' = p + 2 k n' % ('-' if sign == -1 else '+'), ok_mirror, msg)
    # the plane is the frame's local XY plane
    pp = F(FSR, 'planePointsFromTransform')
    ok, why = tv.fi_matches_spec(model, pp, """
        def planePointsFromTransform(frame):
            ux, uy, uz = frame.tripleUnit()
            return frame, ux, uy
        """)
    rep.ob('R18.1', pp, '(frame, frame + x, frame + y)', ok, 'mirror plane is not spanned by the frame\'s local x and y unit points: ' + why)
    tu = model.func(TMM, 'tm.tripleUnit')
    ok, why = tv.fi_matches_spec(model, tu, """
        def tripleUnit(self, lv=1):
            ex = np.zeros((6, 1))
            ey = np.zeros((6, 1))
            ez = np.zeros((6, 1))
            ex[0:3, 0] = self.TM[0:3, 0]
            ey[0:3, 0] = self.TM[0:3, 1]
            ez[0:3, 0] = self.TM[0:3, 2]
            return tm(self.TAA + ex*lv), tm(self.TAA + ey*lv), tm(self.TAA + ez*lv)
        """)
    rep.ob('R18.1', tu, 'unit points use rotation columns 0,1,2 for x,y,z', ok, 'tripleUnit is not (pose + column 0, pose + column 1, pose + column 2): ' + why)

    # ---------------------------------------------------------------- R18.2
    rep.rule('R18.2', 'angle wrapping: guard threshold == modulus == 2*pi in every sibling')
    sib = [F(PORT, 'AngleMod'), F(HELP, 'angleMod'), model.func(TMM, 'tm.angleMod')]
    n_sites = 0
    for fi in sib:
        il = Inliner(fi)
        nodes = list(walk_own(fi.node))
        # every threshold an |angle| is compared with, and every modulus an angle is reduced by, folds to 2*pi
        thresholds = []
        for n in nodes:
            if isinstance(n, ast.Compare) and len(n.ops) == 1 and isinstance(n.ops[0], (ast.Gt, ast.GtE, ast.Lt, ast.LtE)):
                l, r = n.left, n.comparators[0]
                if isinstance(l, ast.Call) and norm_text(l.func) in ('abs', 'np.abs') and not (isinstance(r, ast.Call) and norm_text(r.func) in ('abs', 'np.abs')):
                    thresholds.append((n, r))
                elif isinstance(r, ast.Call) and norm_text(r.func) in ('abs', 'np.abs'):
                    thresholds.append((n, l))
        mods = [n for n in nodes if isinstance(n, ast.BinOp) and isinstance(n.op, ast.Mod) and not isinstance(n.left, ast.Constant)]
        mods += [n for n in nodes if isinstance(n, ast.AugAssign) and isinstance(n.op, ast.Mod)]
        # every sibling reduces angles somewhere (how many loops it spreads that over is its own business)
        rep.ob('R18.2', fi, 'wraps angles', bool(mods) and bool(thresholds), 'no angle-modulo-modulus reduction under an abs(angle) > threshold guard found in ' + fi.qualname, shape=True)
        n_sites += 1 if mods else 0
        for mexpr in mods:
            rhs = mexpr.right if isinstance(mexpr, ast.BinOp) else mexpr.value
            mval = fold_const(il.expand(rhs))
            gs = [fold_const(il.expand(t_)) for (_c, t_) in thresholds]
            ok = mval is not None and abs(mval - 2 * math.pi) < 1e-12 and bool(gs) and all(g is not None and abs(g - 2 * math.pi) < 1e-12 for g in gs)
            rep.ob('R18.2', fi, src(mexpr)[:70], ok,
                   'angles beyond %s are reduced modulo %s: the result differs from the input by a non-multiple of 2*pi '
                   '(the rotation changes)' % ([norm_text(il.expand(t_)) for (_c, t_) in thresholds], norm_text(il.expand(rhs))), line=mexpr.lineno)
    rep.floor('R18.2', 'sibling wrap functions with a reduction', n_sites, 3)
    wrap_store_rule(model, rep, 'R18.2')
    # the transform's wrap touches the rotation rows only (the translation shares the six-vector with it)
    from .tmrows import rotation_only
    n_rot = rotation_only(rep, 'R18.2', model.cls(TMM, 'tm'), model.func(TMM, 'tm.angleMod'), 'tm.angleMod',
                          'translation components of magnitude 2*pi or more are wrapped like angles, the pose moves')
    rep.floor('R18.2', 'in-place stores of tm.angleMod', n_rot, 1)

    # ---------------------------------------------------------------- R18.11
    # the deprecated spellings (fsr.Mirror, fsr.CloseGap, ...) are public entry points of the same helpers: each hands its own parameters on,
    # in its own order, to the function it names (keyword calls are already in positional form: the model normalises them)
    rep.rule('R18.11', 'every deprecated alias of faser_general forwards its parameters, each in its own position, to the helper it announces')
    n_al = 0
    for fi_ in model.funcs_in(FSR):
        if fi_.cls is not None or fi_.outer is not None:
            continue
        body_ = [b_ for b_ in fi_.node.body if not (isinstance(b_, ast.Expr) and isinstance(b_.value, ast.Constant))]
        if not any(isinstance(b_, ast.Expr) and isinstance(b_.value, ast.Call) and norm_text(b_.value.func) == 'print' and 'deprecated' in norm_text(b_.value) for b_ in body_):
            continue
        rets_ = [b_ for b_ in body_ if isinstance(b_, ast.Return) and isinstance(b_.value, ast.Call) and isinstance(b_.value.func, ast.Name)]
        if len(rets_) != 1:
            continue
        n_al += 1
        call_ = rets_[0].value
        target_ = model.find_func(FSR, call_.func.id)
        bad_ = None
        for k_, a_ in enumerate(call_.args):
            if not (isinstance(a_, ast.Name) and a_.id in fi_.params):
                continue                                   # a constant / computed argument: not a forwarded parameter
            if fi_.params.index(a_.id) != k_:
                bad_ = 'parameter `%s` (position %d of %s) is passed in position %d of %s' % (a_.id, fi_.params.index(a_.id), fi_.name, k_, call_.func.id)
                break
        for kw_ in call_.keywords:
            if isinstance(kw_.value, ast.Name) and kw_.value.id in fi_.params and target_ is not None and kw_.arg in target_.params \
                    and target_.params.index(kw_.arg) != fi_.params.index(kw_.value.id):
                bad_ = 'parameter `%s` (position %d of %s) is passed as `%s` (position %d of %s)' % (
                    kw_.value.id, fi_.params.index(kw_.value.id), fi_.name, kw_.arg, target_.params.index(kw_.arg), call_.func.id)
        rep.ob('R18.11', fi_, '%s -> %s' % (fi_.name, norm_text(call_)[:70]), bad_ is None,
               'the deprecated alias %s does not hand its arguments on in order: %s - callers of the old name get the helper applied to exchanged operands' % (fi_.name, bad_),
               line=rets_[0].lineno)
    rep.floor('R18.11', 'deprecated aliases of faser_general', n_al, 20)
    # ---------------------------------------------------------------- R18.3
    rep.rule('R18.3', 'arguments of exp / log / hat / vee have the Lie kind the primitive is defined on (known-wrong only)')
    n_typed = 0
    for mod in (FSR, HELP, TMM, GEN + 'faser_twist', PORT):
        for fi in model.funcs_in(mod):
            if fi.outer is not None:
                continue
            kk = Kinds(fi.node)
            bad, seen = kk.check_calls(fi.node)
            n_typed += len(seen)
            badset = {id(b[0]) for b in bad}
            for (call, want, got) in seen:
                if id(call) in badset:
                    rep.ob('R18.3', fi, src(call)[:90], False,
                           '%s is defined on %s but receives a value of kind %s (e.g. the logarithm of a scaled rotation is not half '
                           'the logarithm)' % (src(call.func), want, got), line=call.lineno)
                elif got != 'TOP':
                    rep.ob('R18.3', fi, src(call)[:90], True, 'kind %s' % got, line=call.lineno)
    rep.count('typed primitive call sites', n_typed)
    rep.floor('R18.3', 'typed primitive call sites', n_typed, 40)

    # ---------------------------------------------------------------- R18.4
    rep.rule('R18.4', 'IKPath count/spacing; closeLinearGap step; midpoint position/rotation structure; arcDistance; lookAt frame')
    def spec_ob(fi, construct, specs, msg):
        res = [tv.fi_matches_spec(model, fi, sp_) for sp_ in specs]
        rep.ob('R18.4' if fi.name != 'chainJacobian' else 'R18.6', fi, construct, any(r[0] for r in res), msg + ': ' + res[0][1])

    spec_ob(F(FSR, 'IKPath'), 'steps-1 poses initial + delta*i with delta = (goal - initial)/(steps - 1), then the goal', ["""
        def IKPath(start, end, n):
            step = (end.gTAA() - start.gTAA())/(n - 1)
            out = []
            for k in range(n - 1):
                out.append(tm(start.gTAA() + step * k))
            out.append(end)
            return out
        """], 'the path is not `steps` evenly spaced poses ending with exactly the goal')
    spec_ob(F(FSR, 'closeLinearGap'), 'origin + (goal-origin)/|goal-origin| * delta', ["""
        def closeLinearGap(a, b, step):
            diff = b - a
            out = np.zeros((6, 1))
            length = mr.Norm6(diff[0:6])
            if length == 0:
                return b
            for k in range(6):
                out[k] = a.TAA[k] + (diff[k] / length) * step
            return tm(out)
        """, """
        def closeLinearGap(a, b, step):
            diff = (b - a)[0:6]
            length = mr.Norm6(diff)
            if length == 0:
                return b
            return tm(a.TAA + (diff / length) * step)
        """, """
        def closeLinearGap(a, b, step):
            diff = b - a
            length = mr.Norm6(diff[0:6])
            if length == 0:
                return b
            return tm(a.TAA + (diff / length) * step)
        """, """
        def closeLinearGap(a, b, step):
            diff = b - a
            length = mr.Norm6(diff[0:6])
            if length == 0:
                return b
            return tm(a.TAA[0:6] + (diff[0:6] / length) * step)
        """, """
        def closeLinearGap(a, b, step):
            diff = b - a
            length = mr.Norm6(diff[0:6])
            if length == 0:
                return b
            return tm(a.TAA + (diff[0:6] / length) * step)
        """, """
        def closeLinearGap(a, b, step):
            diff = b - a
            length = mr.Norm6(diff[0:6])
            if length == 0:
                return b
            return tm(a.TAA.reshape((6, 1)) + (diff[0:6] / length) * step)
        """, """
        def closeLinearGap(a, b, step):
            diff = b - a
            length = mr.Norm6(diff[0:6])
            if length == 0:
                return b
            out = np.zeros((6, 1))
            for k in range(6):
                out[k] = (diff[k] / length) * step
            return tm(a.TAA + out)
        """], 'closeLinearGap does not advance by exactly delta along the unit direction to the goal')
    spec_ob(F(FSR, 'closeArcGap'), 'origin @ TAAtoTM((goal-origin)/|goal-origin| * delta)', ["""
        def closeArcGap(a, b, step):
            diff = b - a
            out = np.zeros((6, 1))
            length = mr.Norm6(diff[0:6])
            if length == 0:
                return b
            for k in range(6):
                out[k] = (diff[k] / length) * step
            return a @ TAAtoTM(out)
        """, """
        def closeArcGap(a, b, step):
            diff = b - a
            length = mr.Norm6(diff[0:6])
            if length == 0:
                return b
            return a @ TAAtoTM((diff[0:6] / length) * step)
        """, """
        def closeArcGap(a, b, step):
            diff = (b - a)[0:6]
            length = mr.Norm6(diff)
            if length == 0:
                return b
            return a @ TAAtoTM((diff / length) * step)
        """, """
        def closeArcGap(a, b, step):
            diff = b - a
            length = mr.Norm6(diff[0:6])
            if length == 0:
                return b
            return a @ TAAtoTM((diff / length) * step)
        """, """
        def closeArcGap(a, b, step):
            diff = b - a
            length = mr.Norm6(diff[0:6])
            if length == 0:
                return b
            return a @ tm((diff[0:6] / length) * step)
        """], 'closeArcGap does not advance by exactly delta: the local step is not the unit six-vector of the gap times delta')
    MID = """
        def tmInterpMidpoint(a, b):
            out = np.zeros((6, 1))
            out[0:3] = (a[0:3] + b[0:3])/2
            Ra = mr.MatrixExp3(mr.VecToso3(a[3:6].reshape((3))))
            Rb = mr.MatrixExp3(mr.VecToso3(b[3:6].reshape((3))))
            rel = %s
            half = mr.MatrixExp3(%s)
            out[3:6] = mr.so3ToVec(mr.MatrixLog3(half @ Ra)).reshape((3, 1))
            return tm(out)
        """
    rels = ('(Ra @ (Rb.conj().T)).conj().T', '(Ra @ Rb.T).T', 'Rb @ Ra.T', 'Rb @ Ra.conj().T')
    halves = ('mr.VecToso3(mr.so3ToVec(mr.MatrixLog3(rel)/2))', 'mr.MatrixLog3(rel)/2', 'mr.VecToso3(mr.so3ToVec(mr.MatrixLog3(rel))/2)')
    spec_ob(F(FSR, 'tmInterpMidpoint'), 'midpoint: mean position; rotation = exp(log(R2 R1^T)/2) R1', [MID % (r_, h_) for r_ in rels for h_ in halves],
            'the midpoint is not (mean position, geodesic half-way rotation)')
    spec_ob(F(FSR, 'arcDistance'), 'Norm6(globalToLocal(a, b))', ["""
        def arcDistance(a, b):
            rel = globalToLocal(a, b)
            return mr.Norm6(rel[0:6])
        """], 'arc distance is not the 6-norm of the relative pose')
    LOOK = """
        def lookAt(a, b):
            up = np.array([0, 0, 1])
            pa = a[0:3].flatten()
            pb = b[0:3].flatten()
            z = mr.Normalize(pb-pa)
            x = mr.Normalize(np.cross(up, z))
            y = np.cross(z, x)
            M = np.eye(4)
            M[0:3, 0:3] = np.array([x, y, z]).T
            M[0:3, 3] = pa
            try:
                out = tm(M)
            except:
                pb += np.array([0.00001, .0000001, 0.0])
                z = mr.Normalize(pb-pa)
                x = mr.Normalize(np.cross(up, z))
                y = np.cross(z, x)
                M = np.eye(4)
                M[0:3, 0:3] = np.array([x, y, z]).T
                M[0:3, 3] = pa
                out = tm(M)
            return out
        """
    look_fi = F(FSR, 'lookAt')
    look_ok = tv.fi_matches_spec(model, look_fi, LOOK)
    if look_ok[0]:
        look_res = ('ok', look_ok[1])
    else:
        look_res = look_struct(look_fi)        # written differently from the reference: decide the frame structurally, path by path
    if look_res[0] == 'shape':
        rep.ob('R18.4', look_fi, 'lookAt frame', False, look_res[1], shape=True)
    else:
        rep.ob('R18.4', look_fi, 'position kept; columns (x, y, z) with z = unit(target - position), x a unit vector orthogonal to z, y = z x x',
               look_res[0] == 'ok', 'lookAt does not build a right-handed frame at the first point looking at the second: ' + look_res[1])

    # ---------------------------------------------------------------- R18.5
    rep.rule('R18.5', 'sphere samplers return unit vectors: x^2 + y^2 + z^2 == 1 identically')
    for name in ('fiboSphere', 'unitSphere'):
        fi = F(FSR, name)
        il = Inliner(fi)
        # the sample: the 3-element list that is appended to the result / turned into the result array
        triples = [n for n in walk_own(fi.node) if isinstance(n, ast.List) and len(n.elts) == 3
                   and isinstance(fi.module.parents.get(n), ast.Call) and n in fi.module.parents.get(n).args
                   and norm_text(fi.module.parents.get(n).func).split('.')[-1] in ('append', 'array')]
        trig = {a_.id for c in walk_own(fi.node) if isinstance(c, ast.Call) and norm_text(c.func) in ('np.sin', 'np.cos', 'math.sin', 'math.cos')
                for a_ in c.args if isinstance(a_, ast.Name)}
        xyz = None
        if triples:
            def clamp_hook(itp_, call, name):
                # clamps act as the identity on the mathematical domain (they only matter for rounding overshoot, R18.8)
                if name == 'np.clip' and len(call.args) == 3:
                    return itp_.ev(call.args[0])
                if name in ('max', 'min', 'np.maximum', 'np.minimum') and len(call.args) == 2:
                    nonconst = [a_ for a_ in call.args if not isinstance(a_, ast.Constant)]
                    if len(nonconst) == 1:
                        return itp_.ev(nonconst[0])
                return None
            itp = PolyInterp(call_hook=clamp_hook)
            for t_ in trig:
                itp.env[t_] = Poly.sym(t_)
            try:
                exps = [il.expand(e, _stack=tuple(trig)) for e in triples[0].elts]
                for ex_ in exps:
                    for nn in ast.walk(ex_):
                        # loop counters / accumulators that survive inlining are free scalars
                        if isinstance(nn, ast.Name) and nn.id not in itp.env and nn.id not in ('np', 'math') and il.bind.get(nn.id):
                            itp.env[nn.id] = Poly.sym(nn.id)
                comps = [itp.ev(ex_) for ex_ in exps]
                xyz = comps[0] * comps[0] + comps[1] * comps[1] + comps[2] * comps[2]
            except Uninterp:
                xyz = None
        rep.ob('R18.5', fi, 'x^2 + y^2 + z^2 == 1', xyz is not None and xyz == Poly.const(1),
               'sample norm squared is %s' % (xyz if xyz is not None else 'not recognised'))

    # ---------------------------------------------------------------- R18.9
    rep.rule('R18.9', 'numericalJacobian: every difference quotient is (h(x + step e_k) - h(x - step e_k)) / (2 step): both probes start at the '
                      'evaluation point, move by +step / -step in the same coordinate, and the difference is divided by twice the step')
    nj = F(FSR, 'numericalJacobian')
    n_q, probs = central_differences(nj, {n_.name: n_ for n_ in model.module(FSR).tree.body if isinstance(n_, ast.FunctionDef)})
    rep.ob('R18.9', nj, 'difference quotients of the handle found', n_q >= 1, 'no expression (h(P) - h(M)) / D over the function handle', shape=True)
    for line, msg in probs:
        rep.ob('R18.9', nj, 'central difference', False, 'the numerical Jacobian is not the central difference of the handle: ' + msg, line=line)
    if n_q and not probs:
        rep.ob('R18.9', nj, 'central difference', True, '%d quotient(s)' % n_q)
    # ---------------------------------------------------------------- R18.10
    # The helpers hand out fresh arrays: callers scale, offset and rotate what they receive in place.  A memoising decorator makes every
    # caller of the same arguments share ONE array - the second call returns whatever the first caller did to it.
    rep.rule('R18.10', 'no geometric helper that returns an array (or a list / transform) is memoised: results are fresh objects on every call')
    MEMO = ('lru_cache', 'cache', 'cached', 'memoize', 'memoized', 'memoise', 'cached_property')
    n_fn = n_memo = 0
    for fi in [f for f in model.funcs_in(FSR) + model.funcs_in(HELP) if f.outer is None]:
        n_fn += 1
        decs = []
        for d_ in fi.node.decorator_list:
            f_ = d_.func if isinstance(d_, ast.Call) else d_
            nm = f_.attr if isinstance(f_, ast.Attribute) else (f_.id if isinstance(f_, ast.Name) else '')
            if nm in MEMO:
                decs.append(nm)
        if not decs:
            continue
        n_memo += 1
        rets = [r_.value for r_ in walk_own(fi.node) if isinstance(r_, ast.Return) and r_.value is not None]
        il_ = Inliner(fi)

        def immutable(e_):
            e_ = il_.expand(e_)
            if isinstance(e_, ast.Constant):
                return True
            if isinstance(e_, ast.Tuple):
                return all(immutable(x_) for x_ in e_.elts)
            if isinstance(e_, ast.Call) and norm_text(e_.func) in ('float', 'int', 'bool', 'str', 'tuple', 'len', 'abs', 'round', 'math.sqrt', 'math.acos',
                                                                     'math.atan2', 'math.sin', 'math.cos'):
                return norm_text(e_.func) != 'tuple' or True
            return False
        mut = [r_ for r_ in rets if not immutable(r_)]
        rep.ob('R18.10', fi, '%s is memoised (@%s): returns immutable values only' % (fi.name, decs[0]), not mut,
               '%s is wrapped in @%s and returns %s: every call with the same arguments hands out the SAME object, so a caller that scales / offsets / rotates the '
               'result in place changes what the next caller receives (e.g. sphere samples that are no longer unit vectors)'
               % (fi.name, decs[0], norm_text(mut[0])[:50] if mut else ''), line=fi.node.lineno)
    rep.count('R18.10 helper functions scanned for memoising decorators', n_fn)
    rep.count('R18.10 memoised helpers', n_memo)
    rep.floor('R18.10', 'helper functions scanned', n_fn, 30)
    rep.ob('R18.10', model.module(FSR).relpath, 'memoising decorators on array-valued helpers', True, '%d helpers scanned, %d memoised' % (n_fn, n_memo), qualname='<module>', line=1)
    # ---------------------------------------------------------------- R18.8
    rep.rule('R18.8', 'a value accumulated in floating point inside a loop reaches sqrt / arccos / arcsin / log only through a clamp '
                      '(np.clip, min/max, abs): the accumulated sum may overshoot the mathematical end value by an ulp')
    DOM = {'np.sqrt', 'math.sqrt', 'np.arccos', 'np.arcsin', 'math.acos', 'math.asin', 'np.log', 'math.log'}
    CLAMPS = {'np.clip', 'min', 'max', 'np.minimum', 'np.maximum', 'abs', 'np.abs'}
    n_dom = 0
    for fi in [f for f in model.funcs_in(FSR) + model.funcs_in(HELP) if f.outer is None]:
        il = Inliner(fi)
        acc = set()
        for lp in [n_ for n_ in walk_own(fi.node) if isinstance(n_, (ast.For, ast.While))]:
            for n_ in ast.walk(lp):
                if isinstance(n_, ast.AugAssign) and isinstance(n_.target, ast.Name) and isinstance(n_.op, (ast.Add, ast.Sub, ast.Mult)):
                    acc.add(n_.target.id)
                if isinstance(n_, ast.Assign) and isinstance(n_.targets[0], ast.Name) and isinstance(n_.value, ast.BinOp) \
                        and any(isinstance(x, ast.Name) and x.id == n_.targets[0].id for x in ast.walk(n_.value)):
                    acc.add(n_.targets[0].id)
        # integer counters are exact: drop accumulators that are only ever stepped by integer constants from an integer start
        def integral(name):
            for v in il.defs(name):
                if not (isinstance(v, ast.Constant) and isinstance(v.value, int) or (isinstance(v, ast.BinOp) and all(
                        (isinstance(x, ast.Constant) and isinstance(x.value, int)) or (isinstance(x, ast.Name) and x.id == name) or isinstance(x, (ast.BinOp, ast.operator, ast.expr_context))
                        for x in ast.walk(v)))):
                    return False
            for n_ in walk_own(fi.node):
                if isinstance(n_, ast.AugAssign) and isinstance(n_.target, ast.Name) and n_.target.id == name \
                        and not (isinstance(n_.value, ast.Constant) and isinstance(n_.value.value, int)):
                    return False
            return True
        acc = {a_ for a_ in acc if not integral(a_)}
        if not acc:
            continue
        for c in [n_ for n_ in walk_own(fi.node) if isinstance(n_, ast.Call) and norm_text(n_.func) in DOM and n_.args]:
            arg = il.expand(c.args[0])

            def unclamped(e_):
                if isinstance(e_, ast.Call) and norm_text(e_.func) in CLAMPS:
                    return []
                out = [e_.id] if isinstance(e_, ast.Name) and e_.id in acc else []
                for ch in ast.iter_child_nodes(e_):
                    out.extend(unclamped(ch))
                return out
            bad = unclamped(arg)
            if not ({x.id for x in ast.walk(arg) if isinstance(x, ast.Name)} & acc):
                continue
            n_dom += 1
            rep.ob('R18.8', fi, norm_text(c)[:70], not bad,
                   '`%s` is accumulated by repeated floating-point addition and reaches %s without a clamp: when the sum overshoots the end of '
                   'the domain by rounding (for some step counts it does) the result is NaN instead of the boundary value'
                   % (bad[0] if bad else '?', norm_text(c.func)), line=c.lineno)
    rep.count('R18.8 domain-restricted calls fed by an accumulator', n_dom)
    rep.floor('R18.8', 'domain-restricted calls fed by an accumulator', n_dom, 1)

    from .c02 import closure_obligations
    n = closure_obligations(model, rep, 'R18.7', [f for f in model.funcs_in(FSR) + model.funcs_in(HELP) if f.outer is None],
                            'the geometric helpers (exp / log / hat / vee / adjoint / AngleMod-free primitives)')
    rep.floor('R18.7', 'shared primitives under the helpers', len(n), 8)
    # ---------------------------------------------------------------- R18.6
    rep.rule('R18.6', 'chainJacobian = JacobianSpace recurrence with the same index offsets')
    spec_ob(F(FSR, 'chainJacobian'), 'J[:,0] = S0; T *= exp(theta[i-1] S[i-1]); J[:,i] = Ad(T) S[i]', ["""
        def chainJacobian(S, q):
            J = np.zeros((6, np.size(q)))
            acc = tm()
            J[0:6, 0] = S[0:6, 0]
            for k in range(1, np.size(q)):
                acc = acc @ transformFromTwist(q[k-1] * S[0:6, k-1])
                J[0:6, k] = acc.adjoint() @ S[0:6, k]
            return J
        """], 'chainJacobian deviates from the space-Jacobian recurrence')
