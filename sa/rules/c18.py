"""C18 - geometric helper functions satisfy their defining relations.

Decided statically:
  R18.1 plane convention (exact polynomials): planeFromThreePoints returns (a,b,c,d) with n.p - d == 0 for the
        three points (identities); mirror uses the SAME sign convention for d (its numerator is the negated
        plane residual), divides by |n|^2 and returns p + 2k n; the mirror plane is the frame's local XY
        plane (origin, origin + x, origin + y).
  R18.2 angle-wrapping siblings (mr.AngleMod, fsr.angleMod x3 branches, tm.angleMod): guard threshold and
        modulus both constant-fold to 2*pi.
  R18.3 Lie kinds: every call of exp/log/hat/vee in the helper modules receives an argument of the kind the
        primitive is defined on (log of a rotation, not of a scaled rotation; ...) - known-wrong only.
  R18.4 IKPath: (steps-1) generated poses initial + delta*i with delta = (goal-initial)/(steps-1), then the goal
        (count = steps, even spacing, ends at the goal); closeLinearGap returns origin + unit(goal-origin)*delta;
        interpolated midpoint has the mean position and rotation exp(log(R2 R1^T)/2) R1; arcDistance is the
        norm of the relative pose; lookAt keeps the position and builds a right-handed frame whose z is the
        normalised direction to the target.
  R18.5 sphere samplers: x^2+y^2+z^2 == 1 as a trigonometric-polynomial identity.
  R18.6 chainJacobian mirrors the JacobianSpace recurrence (column 0 = screw 0; T accumulates
        exp(theta[i-1] * screw[i-1]); column i = Ad(T) screw i).
Not decided: geodesic half-way as numbers, metric axioms, optimiser-based rotationFromVector.
"""
import ast
import math

from ..engine.model import AnalysisError, src, walk_own, const_value
from ..engine.poly import Poly
from ..engine.polyinterp import PolyInterp, Uninterp
from ..engine.kinds import Kinds
from .c06 import assigns_of, resolve, returns_of

GEN = 'basic_robotics.general.'
FSR, HELP, TMM = GEN + 'faser_general', GEN + 'basic_helpers', GEN + 'faser_transform'
PORT = 'basic_robotics.modern_robotics_numba.modern_high_performance'


def fold_const(e):
    """constant-fold an expression made of numbers and np.pi"""
    if isinstance(e, ast.Constant) and isinstance(e.value, (int, float)):
        return float(e.value)
    if isinstance(e, ast.Attribute) and e.attr == 'pi':
        return math.pi
    if isinstance(e, ast.BinOp):
        a, b = fold_const(e.left), fold_const(e.right)
        if a is None or b is None:
            return None
        if isinstance(e.op, ast.Mult):
            return a * b
        if isinstance(e.op, ast.Div):
            return a / b
        if isinstance(e.op, ast.Add):
            return a + b
        if isinstance(e.op, ast.Sub):
            return a - b
    return None


def check(model, rep):
    rep.extra['explanation'] = (
        'Exact polynomial identities for the plane / mirror / sphere helpers, constant folding of the angle-wrapping '
        'siblings, Lie-kind typing of every exp/log/hat/vee call site in the helper modules, and structural (count / '
        'spacing / index-offset / handedness) rules for the path, gap, midpoint, look-at and chain-Jacobian helpers.')

    def F(mod, name):
        return model.func(mod, name)

    # ---------------------------------------------------------------- R18.1
    rep.rule('R18.1', 'plane through three points contains them (n.p - d == 0); mirror uses the same sign of d, |n|^2, p + 2kn; '
                      'mirror plane = local XY plane of the frame')
    pf = F(FSR, 'planeFromThreePoints')
    it = PolyInterp()
    pts = []
    for k, p in enumerate(pf.params):
        it.env[p] = [Poly.sym('p%d_%d' % (k + 1, i)) for i in range(3)] + [Poly.sym('r%d_%d' % (k + 1, i)) for i in range(3)]
        pts.append(it.env[p][0:3])
    try:
        out = it.run(pf.body())
    except Uninterp as e:
        raise AnalysisError('planeFromThreePoints can no longer be interpreted: %s' % e)
    if not (isinstance(out, list) and len(out) == 4):
        raise AnalysisError('planeFromThreePoints does not return four plane coefficients')
    a, b, c, d = out
    sign = None
    for s in (-1, 1):
        if all((a * P[0] + b * P[1] + c * P[2] + d * s) == Poly() for P in pts):
            sign = s
    rep.ob('R18.1', pf, 'a x + b y + c z %s d == 0 at the three points' % ('-' if sign == -1 else '+' if sign == 1 else '?'),
           sign is not None, 'the returned plane does not contain the three points under either sign convention of d')
    nonzero = not (a == Poly() and b == Poly() and c == Poly())
    rep.ob('R18.1', pf, 'normal is a cross product of two edge vectors', nonzero, 'plane normal is identically zero')
    mf = F(FSR, 'mirror')
    origin_p, point_p = mf.params[0], mf.params[1]

    def hook(itp, call, name):
        if name == 'planeFromThreePoints':
            return [Poly.sym('a'), Poly.sym('b'), Poly.sym('c'), Poly.sym('d')]
        if name == 'planePointsFromTransform':
            return ['T1', 'T2', 'T3']
        if name == 'tm' and call.args and isinstance(call.args[0], ast.List):
            return itp.ev(call.args[0])
        return None
    im = PolyInterp(call_hook=hook)
    im.env[point_p] = [Poly.sym('x1'), Poly.sym('y1'), Poly.sym('z1')]
    im.env[origin_p] = 'ORIGIN'
    ok_mirror = False
    msg = ''
    try:
        body = [s for s in mf.body()]
        # tolerate the tuple-of-transforms assignments
        stmts = []
        for s in body:
            if isinstance(s, ast.Assign) and isinstance(s.value, ast.Call) and src(s.value.func) in ('planePointsFromTransform',):
                continue
            if isinstance(s, ast.Assign) and isinstance(s.value, ast.Call) and src(s.value.func) == 'planeFromThreePoints':
                im.bind(s.targets[0], [Poly.sym('a'), Poly.sym('b'), Poly.sym('c'), Poly.sym('d')])
                continue
            stmts.append(s)
        res = im.run(stmts)
        if sign is not None and isinstance(res, list) and len(res) >= 3 and len(im.quotients) == 1:
            (q, (N, D)), = im.quotients.items()
            x1, y1, z1 = Poly.sym('x1'), Poly.sym('y1'), Poly.sym('z1')
            A, B, C, Dd = Poly.sym('a'), Poly.sym('b'), Poly.sym('c'), Poly.sym('d')
            resid = A * x1 + B * y1 + C * z1 + Dd * sign
            ok_N = N == -resid
            ok_D = D == A * A + B * B + C * C
            k = Poly.sym(q)
            ok_pt = res[0] == x1 + A * k * 2 and res[1] == y1 + B * k * 2 and res[2] == z1 + C * k * 2
            ok_rot = all(r == Poly() for r in res[3:6]) if len(res) >= 6 else True
            ok_mirror = ok_N and ok_D and ok_pt and ok_rot
            if not ok_N:
                msg = ('mirror computes k from %s, but the plane returned by planeFromThreePoints satisfies a x + b y + c z %s d = 0: '
                       'the offset d enters with the wrong sign, so only planes through the world origin are mirrored correctly'
                       % (N, '-' if sign == -1 else '+'))
            elif not ok_D:
                msg = 'k is not divided by |n|^2 = a^2+b^2+c^2'
            elif not ok_pt:
                msg = 'reflected point is not p + 2 k n'
        else:
            msg = 'mirror is not of the form k = N/|n|^2, p\' = p + 2kn'
    except Uninterp as e:
        raise AnalysisError('mirror can no longer be interpreted: %s' % e)
    rep.ob('R18.1', mf, 'k = -(n.p %s d)/|n|^2 ; p\' = p + 2 k n' % ('-' if sign == -1 else '+'), ok_mirror, msg)
    # the plane is the frame's local XY plane
    pp = F(FSR, 'planePointsFromTransform')
    r = returns_of(pp)
    asg = {}
    for n in walk_own(pp.node):
        if isinstance(n, ast.Assign) and isinstance(n.targets[0], ast.Tuple):
            asg = {src(t): i for i, t in enumerate(n.targets[0].elts)}
            unit_src = src(n.value)
    ok = bool(r) and isinstance(r[0].value, ast.Tuple) and len(r[0].value.elts) == 3 and src(r[0].value.elts[0]) == pp.params[0] \
        and asg.get(src(r[0].value.elts[1])) == 0 and asg.get(src(r[0].value.elts[2])) == 1 and unit_src.endswith('.tripleUnit()')
    rep.ob('R18.1', pp, '(frame, frame + x, frame + y)', ok, 'mirror plane is not spanned by the frame\'s local x and y unit points')
    tu = model.func(TMM, 'tm.tripleUnit')
    cols = {}
    for n in walk_own(tu.node):
        if isinstance(n, ast.Assign) and isinstance(n.targets[0], ast.Subscript) and 'self.TM[0:3,' in src(n.value).replace(' ', ''):
            cols[src(n.targets[0].value)] = src(n.value).replace(' ', '')
    ok = cols.get('xvec') == 'self.TM[0:3,0]' and cols.get('yvec') == 'self.TM[0:3,1]' and cols.get('zvec') == 'self.TM[0:3,2]'
    rep.ob('R18.1', tu, 'unit points use rotation columns 0,1,2 for x,y,z', ok, 'tripleUnit column assignment is %s' % cols)

    # ---------------------------------------------------------------- R18.2
    rep.rule('R18.2', 'angle wrapping: guard threshold == modulus == 2*pi in every sibling')
    sib = [F(PORT, 'AngleMod'), F(HELP, 'angleMod'), model.func(TMM, 'tm.angleMod')]
    n_sites = 0
    for fi in sib:
        for n in walk_own(fi.node):
            if isinstance(n, ast.If) and isinstance(n.test, ast.Compare) and len(n.test.ops) == 1 and isinstance(n.test.ops[0], ast.Gt) \
                    and src(n.test.left).startswith('abs('):
                g = fold_const(n.test.comparators[0])
                mods = [s.value for s in n.body if isinstance(s, ast.Assign) and isinstance(s.value, ast.BinOp) and isinstance(s.value.op, ast.Mod)]
                for mexpr in mods:
                    n_sites += 1
                    mval = fold_const(mexpr.right)
                    ok = g is not None and mval is not None and abs(g - 2 * math.pi) < 1e-12 and abs(mval - 2 * math.pi) < 1e-12
                    rep.ob('R18.2', fi, src(mexpr), ok,
                           'angles beyond %s are reduced modulo %s: the result differs from the input by a non-multiple of 2*pi '
                           '(the rotation changes)' % (src(n.test.comparators[0]), src(mexpr.right)), line=n.lineno)
    rep.floor('R18.2', 'wrap sites', n_sites, 5)

    # ---------------------------------------------------------------- R18.3
    rep.rule('R18.3', 'arguments of exp / log / hat / vee have the Lie kind the primitive is defined on (known-wrong only)')
    n_typed = 0
    for mod in (FSR, HELP, TMM, GEN + 'faser_twist', PORT):
        for fi in model.funcs_in(mod):
            if fi.outer is not None:
                continue
            kk = Kinds(fi.node)
            bad, seen = kk.check_calls(fi.node)
            n_typed += len(seen)
            badset = {id(b[0]) for b in bad}
            for (call, want, got) in seen:
                if id(call) in badset:
                    rep.ob('R18.3', fi, src(call)[:90], False,
                           '%s is defined on %s but receives a value of kind %s (e.g. the logarithm of a scaled rotation is not half '
                           'the logarithm)' % (src(call.func), want, got), line=call.lineno)
                elif got != 'TOP':
                    rep.ob('R18.3', fi, src(call)[:90], True, 'kind %s' % got, line=call.lineno)
    rep.count('typed primitive call sites', n_typed)
    rep.floor('R18.3', 'typed primitive call sites', n_typed, 40)

    # ---------------------------------------------------------------- R18.4
    rep.rule('R18.4', 'IKPath count/spacing; closeLinearGap step; midpoint position/rotation structure; arcDistance; lookAt frame')
    ik = F(FSR, 'IKPath')
    ini, goal, steps = ik.params
    asg = assigns_of(ik)
    dl = asg.get('delta', [None])[0]
    ok_delta = dl is not None and src(dl).replace(' ', '') == '(%s.gTAA()-%s.gTAA())/(%s-1)' % (goal, ini, steps)
    rep.ob('R18.4', ik, 'delta = (goal - initial)/(steps - 1)', ok_delta, 'delta is %s' % (src(dl) if dl is not None else '?'))
    loops = [n for n in ik.body() if isinstance(n, ast.For)]
    ok_loop = False
    lst = None
    if len(loops) == 1 and isinstance(loops[0].target, ast.Name):
        lp = loops[0]
        iv = lp.target.id
        ok_rng = src(lp.iter).replace(' ', '') == 'range(%s-1)' % steps
        apps = [c for c in ast.walk(lp) if isinstance(c, ast.Call) and isinstance(c.func, ast.Attribute) and c.func.attr == 'append']
        lasg = {}
        for n in ast.walk(lp):
            if isinstance(n, ast.Assign) and isinstance(n.targets[0], ast.Name):
                lasg.setdefault(n.targets[0].id, []).append(n.value)
        el = resolve(apps[0].args[0], lasg) if len(apps) == 1 else None
        ok_el = el is not None and src(el).replace(' ', '') in ('tm(%s.gTAA()+delta*%s)' % (ini, iv), 'tm(%s.gTAA()+%s*delta)' % (ini, iv))
        ok_loop = ok_rng and ok_el
        lst = src(apps[0].func.value) if apps else None
        rep.ob('R18.4', ik, 'steps-1 poses initial + delta*i', ok_loop, 'range %s, element %s' % (src(lp.iter), src(el) if el is not None else '?'), line=lp.lineno)
        after = [n for n in ik.body() if n.lineno > lp.end_lineno]
        app2 = [c for s in after for c in ast.walk(s) if isinstance(c, ast.Call) and isinstance(c.func, ast.Attribute) and c.func.attr == 'append']
        ok_goal = len(app2) == 1 and src(app2[0].func.value) == lst and src(app2[0].args[0]) == goal
        rets = [n for n in after if isinstance(n, ast.Return)]
        rep.ob('R18.4', ik, 'goal appended once, list returned', ok_goal and bool(rets) and src(rets[0].value) == lst,
               'the path does not end with exactly the goal')
    else:
        rep.ob('R18.4', ik, 'generation loop', False, 'IKPath loop not recognised')
    cl = F(FSR, 'closeLinearGap')
    o_p, g_p, d_p = cl.params
    asg = assigns_of(cl)
    otg = asg.get('origin_to_goal', [None])[0]
    var = asg.get('var', [None])[0]
    ok1 = otg is not None and src(otg).replace(' ', '') == '%s-%s' % (g_p, o_p)
    ok2 = var is not None and 'Norm6(origin_to_goal[0:6])' in src(var)
    st = [n for n in ast.walk(cl.node) if isinstance(n, ast.Assign) and isinstance(n.targets[0], ast.Subscript) and src(n.targets[0].value) == 'return_transform']
    ok3 = len(st) == 1 and src(st[0].value).replace(' ', '') == '%s.TAA[i]+origin_to_goal[i]/var*%s' % (o_p, d_p)
    rets = returns_of(cl)
    ok4 = any(src(r.value) == 'tm(return_transform)' for r in rets)
    rep.ob('R18.4', cl, 'origin + (goal-origin)/|goal-origin| * delta', ok1 and ok2 and ok3 and ok4,
           'closeLinearGap does not advance by exactly delta along the unit direction to the goal')
    mid = F(FSR, 'tmInterpMidpoint')
    r1, r2 = mid.params
    asg = assigns_of(mid)
    pos = [n for n in walk_own(mid.node) if isinstance(n, ast.Assign) and src(n.targets[0]).replace(' ', '') == 'taar[0:3]']
    ok_pos = len(pos) == 1 and src(pos[0].value).replace(' ', '') == '(%s[0:3]+%s[0:3])/2' % (r1, r2)
    rep.ob('R18.4', mid, 'midpoint position is the mean', ok_pos, 'position part is %s' % (src(pos[0].value) if pos else '?'))
    Re = asg.get('Re', [None])[0]
    Re2 = asg.get('Re2', [None])[0]
    rmid = asg.get('rmid', [None])[0]
    ok_re = Re is not None and src(Re).replace(' ', '') in ('(R1@R2.conj().T).conj().T', '(R1@R2.T).T', 'R2@R1.T', 'R2@R1.conj().T')
    ok_re2 = Re2 is not None and src(Re2).replace(' ', '') in (
        'mr.MatrixExp3(mr.VecToso3(mr.so3ToVec(mr.MatrixLog3(Re)/2)))', 'mr.MatrixExp3(mr.MatrixLog3(Re)/2)',
        'mr.MatrixExp3(mr.VecToso3(mr.so3ToVec(mr.MatrixLog3(Re))/2))', 'mr.MatrixExp3(mr.VecToso3(mr.so3ToVec(mr.MatrixLog3(Re)/2.0)))')
    ok_mid = rmid is not None and src(rmid).replace(' ', '') == 'Re2@R1'
    rep.ob('R18.4', mid, 'midpoint rotation = exp(log(R2 R1^T)/2) R1', ok_re and ok_re2 and ok_mid,
           'rotation part is not the geodesic half-way construction: Re=%s, Re2=%s, rmid=%s' % (
               src(Re) if Re is not None else '?', src(Re2) if Re2 is not None else '?', src(rmid) if rmid is not None else '?'))
    ad = F(FSR, 'arcDistance')
    asg = assigns_of(ad)
    ge = asg.get('geo_error', [None])[0]
    dd = asg.get('d', [None])[0]
    ok = ge is not None and src(ge) == 'globalToLocal(%s, %s)' % tuple(ad.params) and dd is not None and src(dd) == 'mr.Norm6(geo_error[0:6])'
    rep.ob('R18.4', ad, 'Norm6(globalToLocal(a, b))', ok, 'arc distance is not the 6-norm of the relative pose')
    la = F(FSR, 'lookAt')
    asg = assigns_of(la)
    p1, p2 = la.params

    def first(name):
        v = asg.get(name)
        if not v:
            return None
        forms = {src(x).replace(' ', '') for x in v}
        return forms.pop() if len(forms) == 1 else 'inconsistent:%s' % sorted(forms)
    ok = first('va') == '%s[0:3].flatten()' % p1 and first('vb') == '%s[0:3].flatten()' % p2 and first('zax') == 'mr.Normalize(vb-va)' \
        and first('xax') == 'mr.Normalize(np.cross(up,zax))' and first('yax') == 'np.cross(zax,xax)'
    stores = {src(n.targets[0]).replace(' ', ''): src(n.value).replace(' ', '') for n in ast.walk(la.node)
              if isinstance(n, ast.Assign) and isinstance(n.targets[0], ast.Subscript)}
    ok = ok and stores.get('R2[0:3,0:3]') == 'np.array([xax,yax,zax]).T' and stores.get('R2[0:3,3]') == 'va'
    rep.ob('R18.4', la, 'position kept; columns (x, y, z) with z = unit(target - position), y = z x x', ok,
           'lookAt does not build a right-handed frame at the first point looking at the second')

    # ---------------------------------------------------------------- R18.5
    rep.rule('R18.5', 'sphere samplers return unit vectors: x^2 + y^2 + z^2 == 1 identically')
    for name, env0 in (('fiboSphere', {'theta': Poly.sym('theta'), 'phi': Poly.sym('phi')}),
                       ('unitSphere', {'a': Poly.sym('a'), 'arccos_e': Poly.sym('u')})):
        fi = F(FSR, name)
        itp = PolyInterp()
        itp.env.update(env0)
        xyz = None
        for n in ast.walk(fi.node):
            if isinstance(n, ast.Assign):
                tg = n.targets[0]
                try:
                    if isinstance(tg, ast.Tuple) and [src(t) for t in tg.elts] == ['x', 'y', 'z']:
                        itp.bind(tg, itp.ev(n.value))
                    elif isinstance(tg, ast.Name) and tg.id in ('x', 'y', 'z', 'sin_arccos_e'):
                        itp.env[tg.id] = itp.ev(n.value)
                except Uninterp:
                    pass
        if all(k in itp.env for k in ('x', 'y', 'z')):
            x, y, z = itp.env['x'], itp.env['y'], itp.env['z']
            xyz = x * x + y * y + z * z
        rep.ob('R18.5', fi, 'x^2 + y^2 + z^2 == 1', xyz is not None and xyz == Poly.const(1),
               'sample norm squared is %s' % (xyz if xyz is not None else 'not recognised'))

    from .c02 import closure_obligations
    n = closure_obligations(model, rep, 'R18.7', [f for f in model.funcs_in(FSR) + model.funcs_in(HELP) if f.outer is None],
                            'the geometric helpers (exp / log / hat / vee / adjoint / AngleMod-free primitives)')
    rep.floor('R18.7', 'shared primitives under the helpers', len(n), 8)
    # ---------------------------------------------------------------- R18.6
    rep.rule('R18.6', 'chainJacobian = JacobianSpace recurrence with the same index offsets')
    cj = F(FSR, 'chainJacobian')
    sc, th = cj.params
    loops = [n for n in cj.body() if isinstance(n, ast.For)]
    first_col = [n for n in cj.body() if isinstance(n, ast.Assign) and src(n.targets[0]).replace(' ', '') == 'jac[0:6,0]']
    ok = bool(first_col) and src(first_col[0].value).replace(' ', '') == '%s[0:6,0]' % sc
    if len(loops) == 1:
        lp = loops[0]
        iv = lp.target.id
        ok = ok and src(lp.iter).replace(' ', '') == 'range(1,np.size(%s))' % th
        body = {src(n.targets[0]).replace(' ', ''): src(n.value).replace(' ', '') for n in lp.body if isinstance(n, ast.Assign)}
        ok = ok and body.get('T') == 'T@transformFromTwist(%s[%s-1]*%s[0:6,%s-1])' % (th, iv, sc, iv) \
            and body.get('jac[0:6,%s]' % iv) == 'T.adjoint()@%s[0:6,%s]' % (sc, iv)
    else:
        ok = False
    rep.ob('R18.6', cj, 'J[:,0] = S0; T *= exp(theta[i-1] S[i-1]); J[:,i] = Ad(T) S[i]', ok, 'chainJacobian deviates from the space-Jacobian recurrence')
