"""Where a field's value comes from: backward def-use flow from `self.<field> = <parameter>` stores through call sites to the keys of a
definition dictionary (no execution; flow-insensitive over the assignments of a local, so every value the local can hold is reported).

    origins_of_field(model, cls, field, modules)  ->  set of origins
origins:
    ('key', ('Actuators', 'ShaftCOGD'))      a constant-key lookup  <name>["Actuators"]["ShaftCOGD"]
    ('const', 0)                             a literal
    ('expr', text, frozenset(inner origins)) a computed value and what it is computed from
    ('param', function, name)                a parameter of a function that nothing in the searched modules calls (public entry point)
    ('unknown', text)                        anything else

A parameter is followed to every call site of its function / method in `modules` (positional and keyword binding; methods are matched by
attribute name on any receiver when exactly one class in the searched modules defines that method name)."""
import ast

from ..engine.model import src, walk_own


def _key_path(e):
    keys = []
    while isinstance(e, ast.Subscript) and isinstance(e.slice, ast.Constant) and isinstance(e.slice.value, str):
        keys.append(e.slice.value)
        e = e.value
    if keys and isinstance(e, ast.Name):
        return tuple(reversed(keys))
    return None


class RoleFlow:
    def __init__(self, model, modules):
        self.model = model
        self.funcs = [fi for m in modules for fi in model.funcs_in(m)]
        self.by_name = {}
        for fi in self.funcs:
            self.by_name.setdefault(fi.name, []).append(fi)

    # ------------------------------------------------------------------ values inside one function
    def describe(self, fi, e, seen):
        if isinstance(e, ast.Constant):
            return {('const', e.value)}
        if isinstance(e, ast.UnaryOp) and isinstance(e.operand, ast.Constant):
            return {('const', src(e))}
        kp = _key_path(e)
        if kp is not None:
            return {('key', kp)}
        if isinstance(e, ast.Name):
            return self.local(fi, e.id, seen)
        if isinstance(e, ast.Subscript) and isinstance(e.slice, ast.Constant) and isinstance(e.slice.value, int) and isinstance(e.value, ast.Name):
            # element of a local tuple / list display
            vals = list(self._assigns(fi, e.value.id))
            if vals and all(isinstance(v, (ast.Tuple, ast.List)) and -len(v.elts) <= e.slice.value < len(v.elts) for v in vals):
                out = set()
                for v in vals:
                    out |= self.describe(fi, v.elts[e.slice.value], seen)
                return out
        if isinstance(e, ast.IfExp):
            return self.describe(fi, e.body, seen) | self.describe(fi, e.orelse, seen)
        if isinstance(e, ast.Call) and src(e.func) in ('float', 'int', 'np.float64', 'abs') and len(e.args) == 1:
            return self.describe(fi, e.args[0], seen)
        inner = set()
        for x in ast.walk(e):
            if x is e:
                continue
            kp = _key_path(x)
            if kp is not None:
                inner.add(('key', kp))
            elif isinstance(x, ast.Name) and isinstance(x.ctx, ast.Load) and (x.id in fi.params or any(True for _ in self._assigns(fi, x.id))):
                for o in self.local(fi, x.id, seen):
                    inner.add(o)
        if inner or isinstance(e, (ast.BinOp, ast.Call)):
            flat = set()
            for o in inner:
                if o[0] == 'expr':
                    flat |= set(o[2])
                else:
                    flat.add(o)
            return {('expr', src(e)[:60], frozenset(flat))}
        return {('unknown', src(e)[:60])}

    def _assigns(self, fi, name):
        for n in walk_own(fi.node):
            if isinstance(n, ast.Assign):
                for t in n.targets:
                    if isinstance(t, ast.Name) and t.id == name:
                        yield n.value
                    elif isinstance(t, (ast.Tuple, ast.List)) and isinstance(n.value, (ast.Tuple, ast.List)) and len(t.elts) == len(n.value.elts):
                        for a, b in zip(t.elts, n.value.elts):
                            if isinstance(a, ast.Name) and a.id == name:
                                yield b
            elif isinstance(n, ast.AnnAssign) and isinstance(n.target, ast.Name) and n.target.id == name and n.value is not None:
                yield n.value

    def local(self, fi, name, seen):
        key = (fi.key, name)
        if key in seen:
            return set()
        seen = seen | {key}
        out = set()
        vals = list(self._assigns(fi, name))
        for v in vals:
            out |= self.describe(fi, v, seen)
        if name in fi.params and name not in ('self', 'cls'):
            out |= self.param(fi, name, seen)
        if not vals and name not in fi.params:
            out.add(('unknown', name))
        return out

    # ------------------------------------------------------------------ parameters: every call site
    def call_sites(self, callee):
        unique_method = callee.cls is not None and len([f for f in self.by_name.get(callee.name, []) if f.cls is not None]) == 1
        for fi in self.funcs:
            for c in ast.walk(fi.node):
                if not isinstance(c, ast.Call):
                    continue
                if callee.cls is None and isinstance(c.func, ast.Name) and c.func.id == callee.name:
                    yield fi, c, callee.params
                elif callee.cls is not None and isinstance(c.func, ast.Attribute) and c.func.attr == callee.name and unique_method:
                    yield fi, c, callee.params[1:]
                elif callee.cls is not None and callee.name == '__init__' and isinstance(c.func, ast.Name) and c.func.id == callee.cls.name:
                    yield fi, c, callee.params[1:]

    def param(self, callee, name, seen):
        out = set()
        n_sites = 0
        for fi, c, params in self.call_sites(callee):
            if any(isinstance(a, ast.Starred) for a in c.args) or any(k.arg is None for k in c.keywords):
                out.add(('unknown', 'starred call ' + src(c)[:40]))
                n_sites += 1
                continue
            arg = None
            if name in params and params.index(name) < len(c.args):
                arg = c.args[params.index(name)]
            for k in c.keywords:
                if k.arg == name:
                    arg = k.value
            n_sites += 1
            if arg is None:
                d = callee.defaults.get(name)
                if d is not None:
                    out |= self.describe(callee, d, seen)
                continue
            out |= self.describe(fi, arg, seen)
        if not n_sites:
            out.add(('param', callee.qualname, name))
        return out

    # ------------------------------------------------------------------ fields
    def field(self, ci, field):
        """origins of every `self.<field> = value` store in the methods of class ci (constructor literals included)"""
        out = set()
        sites = []
        for fi in ci.methods.values():
            for n in walk_own(fi.node):
                if isinstance(n, ast.Assign):
                    for t in n.targets:
                        if isinstance(t, ast.Attribute) and isinstance(t.value, ast.Name) and t.value.id == 'self' and t.attr == field:
                            sites.append((fi, n))
                            out |= self.describe(fi, n.value, frozenset())
        return out, sites


def keys_of(origins):
    out = set()
    for o in origins:
        if o[0] == 'key':
            out.add(o[1])
        elif o[0] == 'expr':
            out |= keys_of(o[2])
    return out
