"""Where a field's value comes from: backward def-use flow from `self.<field> = <parameter>` stores through call sites to the keys of a
definition dictionary (no execution; flow-insensitive over the assignments of a local, so every value the local can hold is reported).

    origins_of_field(model, cls, field, modules)  ->  set of origins
origins:
    ('key', ('Actuators', 'ShaftCOGD'))      a constant-key lookup  <name>["Actuators"]["ShaftCOGD"]
    ('const', 0)                             a literal
    ('expr', text, frozenset(inner origins)) a computed value and what it is computed from
    ('param', function, name)                a parameter of a function that nothing in the searched modules calls (public entry point)
    ('unknown', text)                        anything else

A parameter is followed to every call site of its function / method in `modules` (positional and keyword binding; methods are matched by
attribute name on any receiver when exactly one class in the searched modules defines that method name)."""
import ast

from ..engine.model import src, walk_own


def _key_path(e):
    keys = []
    while isinstance(e, ast.Subscript) and isinstance(e.slice, ast.Constant) and isinstance(e.slice.value, str):
        keys.append(e.slice.value)
        e = e.value
    if keys and isinstance(e, ast.Name):
        return tuple(reversed(keys))
    return None


def _key_base(e):
    while isinstance(e, ast.Subscript):
        e = e.value
    return e.id if isinstance(e, ast.Name) else None


class RoleFlow:
    def __init__(self, model, modules):
        self.model = model
        self.funcs = [fi for m in modules for fi in model.funcs_in(m)]
        self.by_name = {}
        for fi in self.funcs:
            self.by_name.setdefault(fi.name, []).append(fi)

    # ------------------------------------------------------------------ values inside one function
    def describe(self, fi, e, seen):
        if isinstance(e, ast.Constant):
            return {('const', e.value)}
        if isinstance(e, ast.UnaryOp) and isinstance(e.operand, ast.Constant):
            return {('const', src(e))}
        kp = _key_path(e)
        if kp is not None:
            return self.keyed(fi, e, kp, seen)
        if isinstance(e, ast.Name):
            return self.local(fi, e.id, seen)
        if isinstance(e, ast.Subscript) and isinstance(e.slice, ast.Constant) and isinstance(e.slice.value, int) and isinstance(e.value, ast.Name):
            # element of a local tuple / list display
            vals = list(self._assigns(fi, e.value.id))
            if vals and all(isinstance(v, (ast.Tuple, ast.List)) and -len(v.elts) <= e.slice.value < len(v.elts) for v in vals):
                out = set()
                for v in vals:
                    out |= self.describe(fi, v.elts[e.slice.value], seen)
                return out
        if isinstance(e, ast.IfExp):
            return self.describe(fi, e.body, seen) | self.describe(fi, e.orelse, seen)
        if isinstance(e, ast.Call) and src(e.func) in ('float', 'int', 'np.float64', 'abs') and len(e.args) == 1:
            return self.describe(fi, e.args[0], seen)
        inner = set()
        bases = set()
        for x in ast.walk(e):
            if isinstance(x, ast.Subscript) and _key_path(x) is not None:
                b_ = x
                while isinstance(b_, ast.Subscript):
                    b_ = b_.value
                bases.add(id(b_))
        for x in ast.walk(e):
            if x is e or id(x) in bases:
                continue
            kp = _key_path(x)
            if kp is not None:
                inner |= self.keyed(fi, x, kp, seen)
            elif isinstance(x, ast.Name) and isinstance(x.ctx, ast.Load) and (x.id in fi.params or any(True for _ in self._assigns(fi, x.id))):
                for o in self.local(fi, x.id, seen):
                    inner.add(o)
        if inner or isinstance(e, (ast.BinOp, ast.Call)):
            flat = set()
            for o in inner:
                if o[0] == 'expr':
                    flat |= set(o[2])
                else:
                    flat.add(o)
            return {('expr', src(e)[:60], frozenset(flat))}
        return {('unknown', src(e)[:60])}

    def keyed(self, fi, e, kp, seen):
        """a constant-key lookup: when the dictionary looked into is itself a section of the definition (a local or parameter bound to
        <definition>["Section"]), the section's key path is put in front; a dictionary this module builds under string keys is read by key"""
        base = _key_base(e)
        if base is None:
            return {('key', kp)}
        if len(kp) == 1:
            built = self.dict_key(fi, ast.Name(id=base, ctx=ast.Load()), kp[0], seen, strict=True)
            if built:
                return built
        pre = {o[1] for o in self.local(fi, base, seen) if o[0] == 'key'} if (base in fi.params or any(True for _ in self._assigns(fi, base))) else set()
        return {('key', p_ + kp) for p_ in pre} or {('key', kp)}

    def dict_key(self, fi, e, key, seen, strict=False):
        """origins of the value stored under the string `key` of the dictionary expression e (a dict display, dict(...), dict.fromkeys(...), the
        result of a function of the searched modules, plus `name[key] = value` stores into the local).  strict: empty unless e is recognisably a
        dictionary built here."""
        tag = (fi.key, 'dict', ast.dump(e)[:80], key)
        if tag in seen:
            return set()
        seen = seen | {tag}
        out = set()
        if isinstance(e, ast.Dict):
            for k, v in zip(e.keys, e.values):
                if isinstance(k, ast.Constant) and k.value == key:
                    out |= self.describe(fi, v, seen)
            return out
        if isinstance(e, ast.Call):
            fn = src(e.func)
            if fn == 'dict' and not e.args:
                for k in e.keywords:
                    if k.arg == key:
                        out |= self.describe(fi, k.value, seen)
                return out
            if fn == 'dict.fromkeys' and e.args and isinstance(e.args[0], (ast.List, ast.Tuple)) and \
                    any(isinstance(x, ast.Constant) and x.value == key for x in e.args[0].elts):
                return self.describe(fi, e.args[1], seen) if len(e.args) > 1 else {('const', None)}
            if isinstance(e.func, ast.Name):
                for callee in self.by_name.get(e.func.id, []):
                    if callee.cls is None:
                        for r in walk_own(callee.node):
                            if isinstance(r, ast.Return) and r.value is not None:
                                # the callee's parameters are bound at this very call
                                out |= self._rebind(callee, fi, e, self.dict_key(callee, r.value, key, seen, strict), seen)
                return out
            return out
        if isinstance(e, ast.Name):
            is_dict = False
            for v in self._assigns(fi, e.id):
                got = self.dict_key(fi, v, key, seen, strict=True)
                if got or isinstance(v, (ast.Dict,)) or (isinstance(v, ast.Call) and src(v.func) in ('dict', 'dict.fromkeys')):
                    is_dict = True
                out |= got
            for n in walk_own(fi.node):
                if isinstance(n, ast.Assign):
                    for t in n.targets:
                        if isinstance(t, ast.Subscript) and isinstance(t.value, ast.Name) and t.value.id == e.id and isinstance(t.slice, ast.Constant) \
                                and t.slice.value == key:
                            is_dict = True
                            out |= self.describe(fi, n.value, seen)
            if not is_dict and not strict:
                out.add(('unknown', 'dictionary %s' % e.id))
            return out
        return out if strict else {('unknown', src(e)[:40])}

    def _rebind(self, callee, fi, call, origins, seen):
        """origins computed inside `callee` for the call `call` made in fi: ('param', callee, p) entries replaced by the origins of the argument"""
        out = set()
        params = callee.params
        for o in origins:
            if o[0] == 'param' and o[1] == callee.qualname:
                arg = None
                if o[2] in params and params.index(o[2]) < len(call.args):
                    arg = call.args[params.index(o[2])]
                for k in call.keywords:
                    if k.arg == o[2]:
                        arg = k.value
                out |= self.describe(fi, arg, seen) if arg is not None else {o}
            elif o[0] == 'expr':
                out.add(('expr', o[1], frozenset(self._rebind(callee, fi, call, set(o[2]), seen))))
            else:
                out.add(o)
        return out

    def _assigns(self, fi, name):
        for n in walk_own(fi.node):
            if isinstance(n, ast.Assign):
                for t in n.targets:
                    if isinstance(t, ast.Name) and t.id == name:
                        yield n.value
                    elif isinstance(t, (ast.Tuple, ast.List)) and isinstance(n.value, (ast.Tuple, ast.List)) and len(t.elts) == len(n.value.elts):
                        for a, b in zip(t.elts, n.value.elts):
                            if isinstance(a, ast.Name) and a.id == name:
                                yield b
            elif isinstance(n, ast.AnnAssign) and isinstance(n.target, ast.Name) and n.target.id == name and n.value is not None:
                yield n.value

    def local(self, fi, name, seen):
        key = (fi.key, name)
        if key in seen:
            return set()
        seen = seen | {key}
        out = set()
        vals = list(self._assigns(fi, name))
        for v in vals:
            out |= self.describe(fi, v, seen)
        if name in fi.params and name not in ('self', 'cls'):
            out |= self.param(fi, name, seen)
        if not vals and name not in fi.params:
            out.add(('unknown', name))
        return out

    # ------------------------------------------------------------------ parameters: every call site
    def call_sites(self, callee):
        unique_method = callee.cls is not None and len([f for f in self.by_name.get(callee.name, []) if f.cls is not None]) == 1
        for fi in self.funcs:
            for c in ast.walk(fi.node):
                if not isinstance(c, ast.Call):
                    continue
                if callee.cls is None and isinstance(c.func, ast.Name) and c.func.id == callee.name:
                    yield fi, c, callee.params
                elif callee.cls is not None and isinstance(c.func, ast.Attribute) and c.func.attr == callee.name and unique_method:
                    yield fi, c, callee.params[1:]
                elif callee.cls is not None and callee.name == '__init__' and isinstance(c.func, ast.Name) and c.func.id == callee.cls.name:
                    yield fi, c, callee.params[1:]

    def param(self, callee, name, seen):
        out = set()
        n_sites = 0
        for fi, c, params in self.call_sites(callee):
            if any(isinstance(a, ast.Starred) for a in c.args):
                out.add(('unknown', 'starred call ' + src(c)[:40]))
                n_sites += 1
                continue
            arg = None
            spread = [k.value for k in c.keywords if k.arg is None]
            if spread and not (name in params and params.index(name) < len(c.args)) and not any(k.arg == name for k in c.keywords):
                # f(..., **d): the parameter is the entry of d under its own name
                n_sites += 1
                got = set()
                for d_ in spread:
                    got |= self.dict_key(fi, d_, name, seen)
                out |= got
                continue
            if name in params and params.index(name) < len(c.args):
                arg = c.args[params.index(name)]
            for k in c.keywords:
                if k.arg == name:
                    arg = k.value
            n_sites += 1
            if arg is None:
                d = callee.defaults.get(name)
                if d is not None:
                    out |= self.describe(callee, d, seen)
                continue
            out |= self.describe(fi, arg, seen)
        if not n_sites:
            out.add(('param', callee.qualname, name))
        return out

    # ------------------------------------------------------------------ fields
    def field(self, ci, field):
        """origins of every `self.<field> = value` store in the methods of class ci (constructor literals included)"""
        out = set()
        sites = []
        for fi in ci.methods.values():
            for n in walk_own(fi.node):
                if isinstance(n, ast.Assign):
                    for t in n.targets:
                        if isinstance(t, ast.Attribute) and isinstance(t.value, ast.Name) and t.value.id == 'self' and t.attr == field:
                            sites.append((fi, n))
                            out |= self.describe(fi, n.value, frozenset())
                        elif isinstance(t, (ast.Tuple, ast.List)):
                            for j, x in enumerate(t.elts):
                                if isinstance(x, ast.Attribute) and isinstance(x.value, ast.Name) and x.value.id == 'self' and x.attr == field:
                                    sites.append((fi, n))
                                    if isinstance(n.value, (ast.Tuple, ast.List)) and len(n.value.elts) == len(t.elts):
                                        out |= self.describe(fi, n.value.elts[j], frozenset())
                                    else:
                                        out.add(('unknown', src(n.value)[:40]))
        return out, sites


def keys_of(origins):
    out = set()
    for o in origins:
        if o[0] == 'key':
            out.add(o[1])
        elif o[0] == 'expr':
            out |= keys_of(o[2])
    return out
