"""Frame typing of pose-valued expressions of class Arm (shared by C05 / C06 / C08).

A relative transform `inv(A) @ B` (also globalToLocal(A, B)) is meaningful only when A and B are expressed in the same
frame.  The arm keeps poses in two frames, and says which in the field name (confirmed by reading Arm.initialize):
    world  `_end_effector_home` (= base @ local home), `_end_effector_pos_global`, `_original_end_effector_home`,
           `_base_pos_global`, `_joint_homes_global[i]`, `_link_homes_global[i]`, results of FK / FKLink / FKJoint /
           getEEPos / getJointTransforms()[i]
    base   `_end_effector_home_local` (the home tool pose as given to the constructor, relative to the base)
Only definite mismatches (both frames known and different) are reported; anything else is silent.
"""
import ast

from ..engine.inline import Inliner, norm_text
from ..engine.model import walk_own

WORLD_FIELDS = {'_end_effector_home', '_end_effector_pos_global', '_original_end_effector_home', '_base_pos_global'}
WORLD_TABLES = {'_joint_homes_global', '_link_homes_global'}
BASE_FIELDS = {'_end_effector_home_local'}
WORLD_CALLS = {'FK', 'FKLink', 'FKJoint', 'getEEPos'}


def frame_of(e):
    """'world' | 'base' | None for an (inlined) pose expression"""
    while True:
        if isinstance(e, ast.Call) and isinstance(e.func, ast.Attribute) and e.func.attr == 'copy' and not e.args:
            e = e.func.value
        elif isinstance(e, ast.Call) and isinstance(e.func, ast.Name) and e.func.id == 'tm' and len(e.args) == 1:
            e = e.args[0]
        else:
            break
    if isinstance(e, ast.Attribute) and isinstance(e.value, ast.Name) and e.value.id == 'self':
        if e.attr in WORLD_FIELDS:
            return 'world'
        if e.attr in BASE_FIELDS:
            return 'base'
    if isinstance(e, ast.Subscript) and isinstance(e.value, ast.Attribute) and isinstance(e.value.value, ast.Name) and e.value.value.id == 'self' \
            and e.value.attr in WORLD_TABLES and not isinstance(e.slice, ast.Slice):
        return 'world'
    if isinstance(e, ast.Subscript) and isinstance(e.value, ast.Call) and norm_text(e.value.func) == 'self.getJointTransforms':
        return 'world'
    if isinstance(e, ast.Call) and isinstance(e.func, ast.Attribute) and isinstance(e.func.value, ast.Name) and e.func.value.id == 'self' \
            and e.func.attr in WORLD_CALLS:
        return 'world'
    return None


def relative_pairs(fi):
    """(node, A, B) for every inv(A) @ B / globalToLocal(A, B) in the method, operands inlined through single-definition locals"""
    il = Inliner(fi)
    out = []
    for n in walk_own(fi.node):
        if isinstance(n, ast.BinOp) and isinstance(n.op, ast.MatMult):
            l = il.expand(n.left)
            if isinstance(l, ast.Call) and isinstance(l.func, ast.Attribute) and l.func.attr == 'inv' and not l.args:
                out.append((n, l.func.value, il.expand(n.right)))
        elif isinstance(n, ast.Call) and norm_text(n.func).split('.')[-1] == 'globalToLocal' and len(n.args) == 2:
            out.append((n, il.expand(n.args[0]), il.expand(n.args[1])))
    return out


def check_methods(rep, rule, methods):
    n = 0
    for fi in methods:
        for node, a, b in relative_pairs(fi):
            fa, fb = frame_of(a), frame_of(b)
            if fa is None or fb is None:
                continue
            n += 1
            rep.ob(rule, fi, norm_text(node)[:90], fa == fb,
                   'relative transform between `%s` (expressed in the %s frame) and `%s` (%s frame): the result is off by the base pose, i.e. wrong for '
                   'every arm whose base is not at the identity' % (norm_text(a)[:50], fa, norm_text(b)[:50], fb), line=node.lineno)
    return n
