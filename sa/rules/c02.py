"""C02 - the Numba port computes what the reference Modern Robotics library computes.

Decided statically (translation validation by normal form, E6):
  R02.1 API surface: the 47 reference functions exist in the port with the same positional parameters
        (the port may only append defaulted parameters).
  R02.2 per-function equivalence: the value-numbered normal form of every shared function equals the
        normal form of the vendored reference (modern_robotics 1.1.1) modulo the rewrite set N1..N34.
  R02.3 never raises where the reference returns (definite-failure lint over the port module):
        unresolved names, NumPy attributes that no longer exist in the installed NumPy, subscripts of
        higher rank than the value.
  R02.4 a reported IK success meets the tolerances: flag shape / freshness / twist-half vs tolerance
        agreement of IKinBody and IKinSpace on their own normal form.
Not decided: 1e-9 agreement of compiled floating-point results (Numba implements NumPy semantics:
trusted base); "both converge to the same solution" is numerical.
"""
import ast
import builtins

from ..engine.model import AnalysisError, walk_own, src
from ..engine import tv, npstub
from ..engine.normal import Normalizer, Unsupported
from ..engine.mrspec import SHAPES
from . import ikshape

LEVEL = 'translation_validation'
PORT = tv.PORT_MOD


def r021_r022(model, rep, names=None, rule_api='R02.1', rule_eq='R02.2'):
    rep.rule(rule_api, 'every reference function exists in the port with the same positional parameters')
    rep.rule(rule_eq, 'normal form of the port function == normal form of the pinned reference (rewrites N1..N16)')
    results, ref, port = tv.compare_all(model)
    pm = model.module(PORT)
    n_eq = 0
    for name in sorted(results):
        if names is not None and name not in names:
            continue
        r = results[name]
        fi = pm.funcs.get(name)
        if r['verdict'] == 'MISSING':
            rep.ob(rule_api, pm.relpath, 'def ' + name, False, 'reference function %s is missing from the port' % name, qualname=name, line=0)
            continue
        rparams = [a.arg for a in ref[name].args.args]
        pparams = fi.params
        extra = pparams[len(rparams):]
        ok = pparams[:len(rparams)] == rparams and all(p in fi.defaults for p in extra)
        if names is None:
            rep.ob(rule_api, fi, 'signature (%s)' % ', '.join(rparams), ok,
                   'port signature (%s) is not the reference signature plus defaulted parameters' % ', '.join(pparams))
        if r['verdict'] == 'UNCOVERED':
            rep.unresolved_item(rule_eq, fi.where, 'construct outside the normaliser: ' + r['detail'])
            continue
        okv = r['verdict'] == 'EQUIVALENT'
        n_eq += 1 if okv else 0
        rep.ob(rule_eq, fi, name + ' == reference', okv,
               ('differs from modern_robotics.%s (reference line %d): %s' % (name, r['ref_line'], r['detail'][:400])) if not okv
               else ('token-identical' if r.get('token_identical') else 'equal normal forms'))
    n_h = helper_axioms(model, rep, rule_eq)
    rep.count('%s: named helpers compared with the definition the rewrite rules assume' % rule_eq, n_h)
    return results


def r023(model, rep):
    rep.rule('R02.3', 'no definite failure in the port: names resolve, np attributes exist in the installed NumPy, '
                      'subscript rank <= value rank')
    pm = model.module(PORT)
    n_names = 0
    has_ext_star = model.has_ext_star(pm)
    for fi in model.funcs_in(PORT):
        loc = model.scope_locals(fi)
        seen = set()
        for n in walk_own(fi.node):
            if isinstance(n, ast.Name) and isinstance(n.ctx, ast.Load):
                n_names += 1
                if n.id in loc or n.id in seen:
                    continue
                seen.add(n.id)
                if model.resolve_global(pm, n.id) is not None or hasattr(builtins, n.id):
                    continue
                if has_ext_star:
                    rep.unresolved_item('R02.3', fi.where, 'name %s may come from an external star import' % n.id)
                    continue
                rep.ob('R02.3', fi, 'name ' + n.id, False,
                       'name `%s` is read but never bound in %s, its module or builtins: NameError whenever line %d executes'
                       % (n.id, fi.qualname, n.lineno), line=n.lineno)
    rep.count('name loads resolved in the port', n_names)
    db = npstub.load()
    if not db['available']:
        rep.note('NumPy stub oracle unavailable: np attribute obligations skipped')
    uses = npstub.np_attrs(model, {PORT})
    distinct = {}
    for m, attr, line, node in uses:
        distinct.setdefault(attr, (m, line, node))
    for attr, (m, line, node) in sorted(distinct.items()):
        v = npstub.verdict(attr)
        fi = model.enclosing_func(m, node)
        if v == 'unknown':
            rep.unresolved_item('R02.3', m.relpath + ':%d' % line, 'np.%s not in the stub' % attr)
            continue
        tgt = fi if fi is not None else m.relpath
        rep.ob('R02.3', tgt, 'np.' + attr, v == 'ok',
               'np.%s does not exist in the installed NumPy (%s): AttributeError on every execution of line %d' % (attr, npstub.reason(attr), line),
               line=line, qualname='<module>')
    rep.count('distinct np attributes in the port', len(distinct))
    # rank failures noticed by the normaliser
    port_funcs = tv.toplevel_funcs(pm.tree)
    gl = tv.toplevel_names(pm.tree)
    for name, node in sorted(port_funcs.items()):
        nz = Normalizer(node, SHAPES, port_funcs.keys(), None, True, gl)
        try:
            nz.run()
        except Unsupported:
            pass
        except RecursionError:
            continue
        for kind, msg in sorted(set(nz.failures)):
            rep.ob('R02.3', pm.funcs[name], 'rank: ' + msg[:100], False, 'IndexError on every execution: ' + msg)
    rep.ob('R02.3', pm.relpath, 'module scan', True, '%d functions scanned' % len(model.funcs_in(PORT)), qualname='*', line=0)


def r024(model, rep, rule='R02.4'):
    rep.rule(rule, 'IK kernels: success flag = not err of the same loop, computed from the updated joint vector, '
                   'angular half vs orientation tolerance, linear half vs position tolerance')
    pm = model.module(PORT)
    port_funcs = tv.toplevel_funcs(pm.tree)
    gl = tv.toplevel_names(pm.tree)
    for name in ('IKinBody', 'IKinSpace'):
        fi = model.func(PORT, name)
        nz = tv._normalizer(model, pm, fi.node, name, prune=False)
        try:
            term = nz.run()
        except Unsupported as e:
            raise AnalysisError('%s can no longer be normalised: %s' % (name, e))
        for chk, ok, msg in ikshape.analyse(term, fi.params):
            rep.ob(rule, fi, chk + ': ' + (msg if ok else msg)[:110], ok, msg)


def check(model, rep):
    rep.extra['explanation'] = (
        'Translation validation: each of the 47 functions shared with modern_robotics 1.1.1 (vendored) is normalised by '
        'value numbering (locals substituted, branches -> ite, loops -> canonical loop terms, array assembly -> block '
        'normal form) under a fixed set of semantics-preserving rewrites; equal normal forms => same values for all '
        'well-typed inputs. Plus a definite-failure lint and the structural success-flag clause of the IK solvers.')
    rep.trusted_base += ['modern_robotics 1.1.1 core.py (vendor/modern_robotics_core_1_1_1.py) as the reference semantics',
                         'Numba compiles the accepted NumPy subset with NumPy semantics',
                         'rewrite set N1..N34 (DESIGN.md E6) with the shape contracts of sa/engine/mrspec.py',
                         'installed NumPy stub as oracle for module attributes']
    results = r021_r022(model, rep)
    r023(model, rep)
    r024(model, rep)
    rep.floor('R02.2', 'functions shared with the reference', len(results), 47)
    verdicts = {}
    for n, r in results.items():
        verdicts[r['verdict']] = verdicts.get(r['verdict'], 0) + 1
    rep.extra['programs'] = len(results)
    rep.extra['disagreements_checked'] = sum(1 for r in results.values() if r['verdict'] == 'DIFFERENT')
    rep.extra['verdicts'] = verdicts
    rep.extra['token_identical'] = sum(1 for r in results.values() if r.get('token_identical'))
    rep.extra['certificates'] = {n: {'verdict': r['verdict'], 'port_line': r.get('port_line'), 'ref_line': r.get('ref_line'),
                                     'token_identical': r.get('token_identical', False), 'detail': r.get('detail', '')[:300]}
                                 for n, r in sorted(results.items())}


HELPER_SPECS = {
    # the helpers the rewrite rules N1 / N2 / N4 / N7 are named after, with the meaning those rules assume
    'Norm': ('N1: Norm(v) is the Euclidean norm of a 3-vector', """
        def Norm(v):
            return np.sqrt(v[0] * v[0] + v[1] * v[1] + v[2] * v[2])
        """, """
        def Norm(v):
            return np.linalg.norm(v)
        """),
    'SafeTrace': ('N7: SafeTrace(R) is the trace of a square matrix', """
        def SafeTrace(R):
            sz = R.shape
            if sz[0] == sz[1]:
                sum = 0
                for i in range(sz[0]):
                    sum = sum + R[i, i]
                return sum
            return -1
        """, """
        def SafeTrace(R):
            return np.trace(R)
        """),
    'SafeCopy': ('N2: SafeCopy(a) is an element-wise copy of a 2-D array', """
        def SafeCopy(arr):
            s = arr.shape
            newarr = np.zeros((s))
            for i in range(s[0]):
                for j in range(s[1]):
                    newarr[i, j] = arr[i, j]
            return newarr
        """, """
        def SafeCopy(arr):
            return np.copy(arr)
        """, """
        def SafeCopy(arr):
            return arr.copy()
        """),
    'SafeDot': ('N4: SafeDot(A, B) is the matrix product', """
        def SafeDot(A, B):
            return A @ B
        """, """
        def SafeDot(A, B):
            return np.dot(A, B)
        """),
    'MatMul': ('N4: MatMul(A, B) is the matrix product', """
        def MatMul(A, B):
            return A @ B
        """, """
        def MatMul(A, B):
            return np.dot(A, B)
        """),
    'SafeClip': ('SafeClip(x, lo, hi) clamps x to [lo, hi]', """
        def SafeClip(x, mn, mx):
            return min(mx, max(x, mn))
        """, """
        def SafeClip(x, mn, mx):
            return max(mn, min(x, mx))
        """),
}


def helper_axioms(model, rep, rule):
    """The rewrite rules read calls of a few port helpers as NumPy operations by NAME (Norm = linalg.norm, SafeTrace = trace, SafeCopy = copy,
    SafeDot / MatMul = @).  That reading is only valid while the helpers are what their names say: each is compared, by normal form, with
    the definition the rule assumes.  -> number of helpers compared"""
    pm = model.module(PORT)
    n = 0
    for name, spec_t in sorted(HELPER_SPECS.items()):
        what, specs = spec_t[0], spec_t[1:]
        fi = pm.funcs.get(name)
        if fi is None:
            continue                       # a helper that is gone cannot be called: nothing is read through it
        n += 1
        ok, why = False, ''
        for spec in specs:                 # the definition in the repository, or an equivalent library call
            try:
                ok, w_ = tv.matches_spec(model, PORT, name, spec)
            except Exception as ex:  # noqa
                ok, w_ = False, 'not normalisable: %s' % ex
            why = why or w_
            if ok:
                break
        rep.ob(rule, fi, '%s has the meaning the rewrite rules assume' % name, ok,
               '%s - but the helper differs from that definition (%s): every primitive that calls it (MatrixLog3 / MatrixLog6 through SafeTrace, '
               'the exponentials and logarithms through Norm, ...) no longer computes what the reference computes' % (what, why[:200]))
    return n


def closure_obligations(model, rep, rule, callers, what):
    """E6 verdicts scoped to a property: every reference-shared primitive in the transitive callee closure of the kernels
    that `callers` (FuncInfos of the property's anchor code) use must equal the pinned reference."""
    roots = tv.kernel_roots_called_from(model, callers)
    closure = tv.port_closure(model, roots)
    results, ref, port = tv.compare_all(model)
    shared = sorted(n for n in closure if n in results)
    rep.rule(rule, 'every Modern-Robotics primitive that %s depends on (transitive callee closure) has the normal form of the pinned reference' % what)
    pm = model.module(PORT)
    for name in shared:
        r = results[name]
        fi = pm.funcs.get(name)
        if r['verdict'] == 'UNCOVERED':
            rep.unresolved_item(rule, fi.where, 'outside the normaliser: ' + r['detail'])
            continue
        ok = r['verdict'] == 'EQUIVALENT'
        rep.ob(rule, fi, name + ' == reference', ok,
               ('%s, which %s relies on, differs from modern_robotics.%s: %s' % (name, what, name, r['detail'][:300])) if not ok else 'equal normal forms')
    rep.count('%s: primitives in the callee closure shared with the reference' % rule, len(shared))
    helper_axioms(model, rep, rule)
    return shared
