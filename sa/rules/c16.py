"""C16 - RRT* builds a collision-free, cost-consistent tree and returns a path in it.

Decided statically on path_planning/pathplanner.py (for all seeds / obstruction sets / budgets):
  R16.1 exactly one insertion of the new node on every path of an iteration of the growth loop
        (which runs `iterations` times); the root is inserted exactly once by the constructor;
        R6Tree.place inserts once and counts once.
  R16.2 cost/parent pairing: at the end of every iteration the node whose cost expression
        `dist(new, X) + X.getCost()` was stored last is the node passed to the last setParent.
  R16.3 every setParent(X) is dominated by a live fact `not collisionDetector(new, X)`.
  R16.4 the first parent is the nearest neighbour for which the resampling loop's exit established
        min <= dist <= max, with dist computed from the current (new, nearest) pair (not stale).
  R16.5 choose-parent accepts a candidate only on a STRICT improvement of the very expression it then
        stores; only the not-yet-inserted node ever receives a parent or a cost (=> acyclic).
  R16.6 path extraction walks getParent() from the node nearest the goal, prepending, then appends
        the goal; node accessors return the fields setParent/constructor wrote.
  R16.7 the progress display never divides by zero for any budget >= 1.
  R16.8 the choose-parent scan visits every neighbour the query returned (no break / return, full range).
Not decided: distances themselves; exactness of the R-tree's nearest-neighbour query (library).
"""
import ast

from ..engine.model import AnalysisError, src, walk_own
from ..engine.flow import Flow
from ..engine.inline import range_triple, Inliner, norm_text, resolved_in_block, cmp_parts
from ..engine.typestate import FactDomain, EventDomain, names_in

MOD = 'basic_robotics.path_planning.pathplanner'
DISP = 'basic_robotics.utilities.disp'


def _names(text):
    try:
        return {n.id for n in ast.walk(ast.parse(text, mode='eval')) if isinstance(n, ast.Name)}
    except SyntaxError:
        return set()


class Growth:
    """Role resolution inside generalGenerateTree."""

    def __init__(self, fi):
        self.fi = fi
        if len(fi.params) < 4:
            raise AnalysisError('generalGenerateTree lost its (generator, distance, collision) parameters')
        self.gen, self.dist, self.coll = fi.params[1:4]
        loops = [n for n in fi.body() if isinstance(n, ast.For)]
        if len(loops) != 1:
            raise AnalysisError('generalGenerateTree: expected exactly one top-level growth loop, found %d' % len(loops))
        self.loop = loops[0]
        # new-node variable: assigned from generator()
        nn = set()
        for n in ast.walk(self.loop):
            if isinstance(n, ast.Assign) and isinstance(n.value, ast.Call) and isinstance(n.value.func, ast.Name) \
                    and n.value.func.id == self.gen and isinstance(n.targets[0], ast.Name):
                nn.add(n.targets[0].id)
        if len(nn) != 1:
            raise AnalysisError('generalGenerateTree: cannot identify the new-node variable (%s)' % sorted(nn))
        self.new = nn.pop()
        # derived locals: name -> names its defining expressions mention
        self.deps = {}
        for n in ast.walk(self.loop):
            if isinstance(n, ast.Assign) and len(n.targets) == 1 and isinstance(n.targets[0], ast.Name):
                self.deps.setdefault(n.targets[0].id, set()).update(names_in(n.value) - {n.targets[0].id})
        self.assigns = {}
        for n in ast.walk(self.loop):
            if isinstance(n, ast.Assign) and len(n.targets) == 1 and isinstance(n.targets[0], ast.Name):
                self.assigns.setdefault(n.targets[0].id, []).append(n.value)
        self.il = Inliner(fi)

    def atext(self, e):
        """argument text with single-definition temporaries inlined (names kept)"""
        return self.il.text(e, canon=False)

    def is_place(self, call):
        f = call.func
        return isinstance(f, ast.Attribute) and f.attr == 'place' and 'tree' in src(f.value) and call.args and src(call.args[0]) == self.new

    def cost_parts(self, expr):
        """expr == dist(new.getPosition(), X.getPosition()) + X.getCost()  ->  src(X) or None."""
        if isinstance(expr, ast.Name) and expr.id in self.assigns and len(self.assigns[expr.id]) == 1:
            expr = self.assigns[expr.id][0]
        expr = self.il.expand(expr)
        if not (isinstance(expr, ast.BinOp) and isinstance(expr.op, ast.Add)):
            return None
        for d, c in ((expr.left, expr.right), (expr.right, expr.left)):
            if isinstance(d, ast.Call) and isinstance(d.func, ast.Name) and d.func.id == self.dist and len(d.args) == 2 \
                    and isinstance(c, ast.Call) and isinstance(c.func, ast.Attribute) and c.func.attr == 'getCost':
                X = src(c.func.value)
                a = [src(x) for x in d.args]
                want = {self.new + '.getPosition()', X + '.getPosition()'}
                if set(a) == want:
                    return X
        return None


class GrowthDomain(FactDomain):
    """user = (places, cost_of, parent, stale, first_parent_done)"""

    def __init__(self, g, sink):
        self.g = g
        self.sink = sink      # dict construct -> [ok, line, msg]

    def _rec(self, key, ok, line, msg):
        cur = self.sink.get(key)
        if cur is None:
            self.sink[key] = [ok, line, msg]
        elif not ok:
            cur[0] = False
            cur[2] = msg

    def _rebind(self, user, name, line, defining=True):
        places, cost_of, parent, stale, first = user
        # the (cost node, parent node) pair must be complete before any name it mentions is rebound;
        # afterwards both are frozen to one token (the texts no longer denote the same nodes)
        hit = (cost_of and cost_of != 'FROZEN' and name in _names(cost_of)) or \
              (parent and parent != 'FROZEN' and name in _names(parent))
        if hit:
            if cost_of != parent:
                self._rec(('R16.2', 'pair (%s, %s) split by rebinding of %s' % (cost_of, parent, name)), False, line,
                          'cost was taken from %s but the parent is %s when `%s` is rebound' % (cost_of, parent, name))
            cost_of = parent = 'FROZEN'
        stale = set(stale)
        for d, deps in self.g.deps.items():
            if name in deps:
                stale.add(d)
        if defining:
            stale.discard(name)
        return (places, cost_of, parent, frozenset(stale), first)

    def user_store(self, target, value, stmt, facts, user):
        g = self.g
        if isinstance(target, ast.Name):
            return self._rebind(user, target.id, stmt.lineno)
        places, cost_of, parent, stale, first = user
        if isinstance(target, ast.Attribute) and target.attr == 'cost':
            recv = src(target.value)
            self._rec(('R16.5', 'cost store receiver ' + src(stmt)[:70]), recv == g.new, stmt.lineno,
                      'cost of %s is rewritten: only the not-yet-inserted node may receive a cost (stored costs of tree '
                      'nodes would no longer equal parent cost + edge length)' % recv)
            if recv == g.new:
                X = g.cost_parts(value) if value is not None else None
                self._rec(('R16.2', 'cost expression ' + src(stmt)[:90]), X is not None, stmt.lineno,
                          'stored cost is not dist(new, X) + X.getCost() for a single node X')
                cost_of = X or '?'
                if first and value is not None:
                    self._improvement(stmt, value, facts)
        if isinstance(target, ast.Attribute) and target.attr == 'parent':
            self._rec(('R16.5', 'direct parent store ' + src(stmt)[:70]), False, stmt.lineno,
                      'parent link written directly, bypassing setParent and the cost/collision discipline')
        return (places, cost_of, parent, stale, first)

    def _canon(self, e):
        if isinstance(e, ast.Name) and len(self.g.assigns.get(e.id, ())) == 1:
            e = self.g.assigns[e.id][0]
        try:
            e = self.g.il.expand(e)             # temporaries of the value (a named edge length, a named candidate) read in place
        except Exception:  # noqa
            pass
        return src(e).replace(' ', '').replace('(', '').replace(')', '')

    def _improvement(self, stmt, value, facts):
        """A re-parenting cost store `new.cost = V` needs a live fact V < new.cost (strict) about the same V."""
        g = self.g
        NEG = {ast.Lt: ast.GtE, ast.LtE: ast.Gt, ast.Gt: ast.LtE, ast.GtE: ast.Lt}
        FLIP = {ast.Lt: ast.Gt, ast.LtE: ast.GtE, ast.Gt: ast.Lt, ast.GtE: ast.LtE}
        cur = g.new + '.cost'
        v = self._canon(value)
        found = None
        for fct in facts:
            try:
                t = ast.parse(fct[1], mode='eval').body
            except SyntaxError:
                continue
            if not (isinstance(t, ast.Compare) and len(t.ops) == 1 and type(t.ops[0]) in NEG):
                continue
            l, r, op = t.left, t.comparators[0], type(t.ops[0])
            if src(l) == cur:
                l, r, op = r, l, FLIP[op]
            if src(r) != cur:
                continue
            if not fct[0]:
                op = NEG[op]
            if self._canon(l) == v:
                if found is None or op is ast.Lt:
                    found = (op, fct[1])
            elif found is None:
                found = ('other', fct[1])
        key = ('R16.5', 'strict improvement for ' + src(stmt)[:80])
        if found is None:
            self._rec(key, False, stmt.lineno, 'candidate accepted without comparing its cost with the current cost of the new node')
        elif found[0] == 'other':
            self._rec(key, False, stmt.lineno, 'the cost that was compared (`%s`) is not the cost that is stored (%s)' % (found[1][:70], src(value)[:50]))
        else:
            self._rec(key, found[0] is ast.Lt, stmt.lineno,
                      'candidate accepted without a strict cost improvement (`%s` lets ties or worse re-parent the node)' % found[1][:70])

    def user_call(self, call, facts, user):
        g = self.g
        places, cost_of, parent, stale, first = user
        f = call.func
        if g.is_place(call):
            places = min(places + 1, 2)
        if isinstance(f, ast.Attribute) and f.attr == 'setParent' and call.args:
            recv = src(f.value)
            X_raw = src(call.args[0])
            X = src(g.il.expand(call.args[0]))          # a local alias of the candidate node names the same node
            self._rec(('R16.5', 'setParent receiver ' + src(call)), recv == g.new, call.lineno,
                      '%s (a node that may already be in the tree) receives a parent: re-wiring tree nodes can create cycles '
                      'and invalidates stored costs' % recv)
            if recv == g.new:
                self._rec(('R16.5', 'setParent before insertion ' + src(call)), places == 0, call.lineno,
                          'setParent after the node was placed in the tree')
                # the candidate may be named by any local that holds the same node (a single-definition local with the same expansion)
                same = [n_ for n_, vs_ in g.assigns.items() if len(vs_) == 1 and n_ not in (X_raw,) and src(g.il.expand(ast.Name(id=n_, ctx=ast.Load()))) == X]
                free = any(self.has(facts, False, '%s(%s, %s)' % (g.coll, a, b)) for x_ in [X, X_raw] + same for a, b in ((g.new, x_), (x_, g.new)))
                self._rec(('R16.3', src(call)), free, call.lineno,
                          'parent link to %s is not dominated by a negative collision test %s(%s, %s)' % (X, g.coll, g.new, X))
                if not first:
                    # first parent of this iteration: range facts on a fresh dist of (new, X)
                    dvars = [d for d, vals in g.assigns.items()
                             if any(isinstance(v, ast.Call) and isinstance(v.func, ast.Name) and v.func.id == g.dist for v in vals)]
                    ok = False
                    why = 'no distance variable with live range facts'
                    for d in dvars:
                        defs_ok = all({g.atext(a) for a in v.args} == {g.new + '.getPosition()', X.replace(' ', '') + '.getPosition()'} for v in g.assigns[d])
                        NEG = {'<': '>=', '<=': '>', '>': '<=', '>=': '<'}
                        eff = []
                        for fct in facts:
                            try:
                                cp = cmp_parts(ast.parse(fct[1], mode='eval').body, left=d)
                            except SyntaxError:
                                cp = None
                            if cp is not None and cp[1] in NEG:
                                eff.append(cp[1] if fct[0] else NEG[cp[1]])
                        le_max = any(o in ('<', '<=') for o in eff)
                        ge_min = any(o in ('>', '>=') for o in eff)
                        fresh = d not in stale
                        if defs_ok and le_max and ge_min and fresh:
                            ok = True
                        else:
                            why = ('%s: defined from (new, %s): %s; upper-bound fact: %s; lower-bound fact: %s; fresh w.r.t. the '
                                   'current sample/neighbour: %s' % (d, X, defs_ok, le_max, ge_min, fresh))
                    self._rec(('R16.4', 'first ' + src(call)), ok, call.lineno,
                              'first parent attached without an established min <= dist <= max for this very pair (%s)' % why)
                    first = True
                parent = X
        return (places, cost_of, parent, stale, first)

    def enter_loop(self, node, state):
        out = []
        for ((facts, user), consts) in super().enter_loop(node, state):
            for n in names_in(node.target):
                user = self._rebind(user, n, node.lineno)
            out.append(((facts, user), consts))
        return out

    def assume(self, test, truth, state):
        st = super().assume(test, truth, state)
        if st is None:
            return None
        (facts, user), consts = st
        # facts about derived locals also depend on what they were derived from
        new = set()
        for (t, txt, names) in facts:
            extra = set()
            for n in names:
                extra |= self.g.deps.get(n, set())
            new.add((t, txt, frozenset(names | extra)))
        return ((frozenset(new), user), consts)



def _coords(text, dim):
    """elements (normalised texts) of a coordinate tuple expression for a tree of dimension `dim`: tuple displays, concatenation, repetition,
    tuple(<generator over a constant range>), conditional expressions on self.dimension; None when the expression is not of that kind"""
    try:
        e = ast.parse(text, mode='eval').body
    except SyntaxError:
        return None

    def const(x, env):
        if isinstance(x, ast.Constant) and isinstance(x.value, int):
            return x.value
        if isinstance(x, ast.Name) and x.id in env:
            return env[x.id]
        if isinstance(x, ast.Attribute) and norm_text(x) == 'self.dimension':
            return dim
        if isinstance(x, ast.IfExp):
            t = truth(x.test, env)
            return None if t is None else const(x.body if t else x.orelse, env)
        if isinstance(x, ast.BinOp) and isinstance(x.op, (ast.Add, ast.Sub, ast.Mult)):
            a, b = const(x.left, env), const(x.right, env)
            if a is None or b is None:
                return None
            return a + b if isinstance(x.op, ast.Add) else (a - b if isinstance(x.op, ast.Sub) else a * b)
        return None

    def truth(t, env):
        if isinstance(t, ast.Compare) and len(t.ops) == 1:
            a, b = const(t.left, env), const(t.comparators[0], env)
            if a is None or b is None:
                return None
            op = t.ops[0]
            return {ast.Eq: a == b, ast.NotEq: a != b, ast.Lt: a < b, ast.LtE: a <= b, ast.Gt: a > b, ast.GtE: a >= b}.get(type(op))
        return None

    def subst(x, env):
        class S(ast.NodeTransformer):
            def visit_Name(s_, n_):
                return ast.copy_location(ast.Constant(value=env[n_.id]), n_) if n_.id in env else n_
        import copy
        return S().visit(copy.deepcopy(x))

    def go(x, env):
        if isinstance(x, (ast.Tuple, ast.List)):
            return [norm_text(subst(el, env)) for el in x.elts]
        if isinstance(x, ast.BinOp) and isinstance(x.op, ast.Add):
            a, b = go(x.left, env), go(x.right, env)
            return None if a is None or b is None else a + b
        if isinstance(x, ast.BinOp) and isinstance(x.op, ast.Mult):
            a, k = go(x.left, env), const(x.right, env)
            return None if a is None or k is None else a * k
        if isinstance(x, ast.IfExp):
            t = truth(x.test, env)
            return None if t is None else go(x.body if t else x.orelse, env)
        if isinstance(x, ast.Call) and isinstance(x.func, ast.Name) and x.func.id in ('tuple', 'list') and len(x.args) == 1:
            g = x.args[0]
            if isinstance(g, (ast.GeneratorExp, ast.ListComp)) and len(g.generators) == 1 and not g.generators[0].ifs \
                    and isinstance(g.generators[0].target, ast.Name) and isinstance(g.generators[0].iter, ast.Call) \
                    and norm_text(g.generators[0].iter.func) == 'range':
                a = [const(v, env) for v in g.generators[0].iter.args]
                if any(v is None for v in a) or not a:
                    return None
                out = []
                for k in range(*a):
                    env2 = dict(env)
                    env2[g.generators[0].target.id] = k
                    out.append(norm_text(subst(g.elt, env2)))
                return out
            return go(g, env)
        return None
    return go(e, {})

class Checker:
    def __init__(self, model, rep):
        self.model = model
        self.rep = rep
        self.rrt = model.cls(MOD, 'RRTStar')
        self.tree = model.cls(MOD, 'R6Tree')
        self.node = model.cls(MOD, 'PathNode')
        self._flat = {}

    def _m(self, ci, name):
        """the method with the class's private helpers inlined (AST partial evaluation; structure only)"""
        f = ci.methods.get(name)
        if f is None:
            raise AnalysisError('anchor vanished: %s.%s' % (ci.name, name))
        key = (ci.name, name)
        if key in self._flat:
            return self._flat[key]
        import copy
        from ..engine import peval
        flat = peval.flatten({n_: f_.node for n_, f_ in ci.methods.items()}, f.node, depth=2, impure=True)
        ast.fix_missing_locations(flat)
        g = copy.copy(f)
        if ast.dump(flat) != ast.dump(f.node):
            g.node = flat
            for parent in ast.walk(flat):
                for ch in ast.iter_child_nodes(parent):
                    f.module.parents[ch] = parent
            f.module.parents[flat] = f.module.parents.get(f.node)
        self._flat[key] = g
        return g

    def growth(self):
        rep = self.rep
        rep.rule('R16.1', 'exactly one insertion of the new node per iteration on every path; loop runs `iterations` times; '
                          'root inserted once; place() inserts and counts once')
        rep.rule('R16.2', 'at the end of every iteration the node in the stored cost expression is the node given to setParent')
        rep.rule('R16.3', 'every setParent(X) is dominated by a live `not collisionDetector(new, X)`')
        rep.rule('R16.4', 'first parent = nearest neighbour with established min <= dist <= max for the current pair')
        rep.rule('R16.5', 'strict improvement of the stored expression; only the not-yet-inserted node gets parent/cost')
        fi = self._m(self.rrt, 'generalGenerateTree')
        g = Growth(fi)
        sink = {}
        dom = GrowthDomain(g, sink)
        init = ((frozenset(), (0, None, None, frozenset(), False)), frozenset())
        ends, brks, exits = Flow(dom).run_loop_body(g.loop.body, {init})
        # R16.1
        it = g.loop.iter
        rt = range_triple(it)
        # trip count == self.iterations, wherever the counter starts: range(n), range(1, n + 1), reversed(range(n)), ...
        ok_iter = rt is not None and ((rt[2] == 1 and rt[0][0] == '' and rt[1][0] == 'self.iterations' and rt[1][1] - rt[0][1] == 0)
                                      or (rt[2] == -1 and rt[1][0] == '' and rt[0][0] == 'self.iterations' and rt[0][1] - rt[1][1] == 0))
        rep.ob('R16.1', fi, 'for ... in ' + src(it), ok_iter, 'growth loop does not run exactly self.iterations times', line=g.loop.lineno)
        counts = sorted({e[0][1][0] for e in ends})
        rep.ob('R16.1', fi, 'insertions per iteration', counts == [1],
               'number of place(new_node) calls on the paths of one iteration: %s (must be exactly 1 on every path)' % counts,
               line=g.loop.lineno)
        rep.ob('R16.1', fi, 'no early exit from the growth loop', not brks and not [e for e in exits if e.kind == 'return'],
               'an iteration can leave the loop early (break/return): fewer nodes than iterations', line=g.loop.lineno)
        # R16.2 end-of-iteration agreement
        bad = [(u[1], u[2]) for ((f, u), c) in ends if u[2] is not None and u[1] != u[2]]
        rep.ob('R16.2', fi, 'cost node == parent node at iteration end', not bad,
               'an iteration can end with cost taken from %s but parent set to %s' % (bad[0] if bad else ('', '')), line=g.loop.lineno)
        # a node may be inserted without a parent only when the query returned no neighbour at all (the empty-tree branch)
        noparent = [(f, u) for ((f, u), c) in ends if u[2] is None and u[0] >= 1]
        if noparent:
            rep.note('a path inserts a node without a parent (only reachable when the tree is empty: dead branch `len(nearest) == 0`)')

        def empty_fact(facts):
            for (truth, text, _names) in facts:
                t_ = text.replace(' ', '')
                if truth is True and (t_.startswith('len(') and t_.endswith(')==0')):
                    return True
                if truth is False and ((t_.startswith('len(') and (t_.endswith(')>0') or t_.endswith(')!=0') or t_.endswith(')>=1'))) or t_.isidentifier()):
                    return True
                if truth is True and t_.startswith('not') and t_[3:].isidentifier():
                    return True
            return False
        bad_np = [f for (f, u) in noparent if not empty_fact(f)]
        rep.ob('R16.2', fi, 'a node is inserted without a parent only when the neighbour query came back empty', not bad_np,
               'an iteration can insert the new node without giving it a parent although the tree returned a nearest neighbour: the node (and '
               'everything attached to it later) does not reach the root', line=g.loop.lineno)
        n_sp = 0
        for key, (ok, line, msg) in sorted(sink.items()):
            rule, construct = key
            if rule == 'R16.3':
                n_sp += 1
            rep.ob(rule, fi, construct, ok, msg if not ok else 'ok', line=line)
        rep.floor('R16.3', 'setParent sites', n_sp, 2)
        # R16.5 strict improvement (recorded by the domain at every re-parenting cost store)
        n_cp = len([k for k in sink if k[0] == 'R16.5' and k[1].startswith('strict improvement')])
        # R16.8 the scan examines every neighbour it was given
        rep.rule('R16.8', 'the choose-parent scan visits every neighbour returned by the query (no break / return out of the scan)')
        n_scan = 0
        for lp in [n for n in ast.walk(g.loop) if isinstance(n, (ast.For, ast.While)) and n is not g.loop]:
            if not any(isinstance(c, ast.Call) and isinstance(c.func, ast.Attribute) and c.func.attr == 'setParent' for c in ast.walk(lp)):
                continue
            n_scan += 1

            def own(node):
                for ch in ast.iter_child_nodes(node):
                    if isinstance(ch, (ast.For, ast.While, ast.FunctionDef, ast.Lambda)):
                        continue
                    yield ch
                    yield from own(ch)
            early = [x for x in own(lp) if isinstance(x, (ast.Break, ast.Return))]
            rep.ob('R16.8', fi, 'scan `%s` runs to completion' % src(lp).split('\n')[0][:70], not early,
                   ('line %d leaves the scan early: neighbours after that point are never considered, so the node can stay on a more '
                    'expensive parent although a cheaper collision-free candidate was returned by the query' % early[0].lineno) if early else 'ok',
                   line=early[0].lineno if early else lp.lineno)
            if isinstance(lp, ast.For) and isinstance(lp.iter, ast.Call) and src(lp.iter.func) == 'range':
                a_ = lp.iter.args
                hi = a_[0] if len(a_) == 1 else a_[1]
                full = isinstance(hi, ast.Call) and src(hi.func) == 'len' and (len(a_) < 3)
                rep.ob('R16.8', fi, 'scan range %s' % src(lp.iter), full, 'the scan stops before the last neighbour (%s)' % src(lp.iter), line=lp.lineno)
        rep.floor('R16.8', 'choose-parent scans', n_scan, 1)
        rep.floor('R16.5', 'choose-parent sites', n_cp, 1)

    def bookkeeping(self):
        rep = self.rep
        init = self._m(self.rrt, '__init__')

        class Cnt(EventDomain):
            def on_call(s, call, state):
                n, consts = state
                f = call.func
                if isinstance(f, ast.Attribute) and f.attr == 'place':
                    return ((min(n + 1, 2), consts),)
                return (state,)
        exits = Flow(Cnt()).run(init.body(), {(0, frozenset())})
        counts = sorted({e.state[0] for e in exits if e.kind in ('fall', 'return')})
        rep.ob('R16.1', init, 'root insertions in the constructor', counts == [1],
               'constructor inserts the root %s times on some path' % counts)
        # root is the start pose: place(PathNode(origin)) on the `origin is not None` path
        one_def = {}
        for n_ in ast.walk(init.node):
            if isinstance(n_, ast.Assign) and len(n_.targets) == 1 and isinstance(n_.targets[0], ast.Name):
                one_def.setdefault(n_.targets[0].id, []).append(n_.value)

        def is_origin(e, depth=0):
            # the origin parameter, directly, named once, or as the arm of a conditional (expression / lowered statement) for a given origin
            if isinstance(e, ast.IfExp):
                return is_origin(e.body, depth) or is_origin(e.orelse, depth)
            if isinstance(e, ast.Name) and e.id == init.params[1]:
                return True
            if isinstance(e, ast.Name) and depth < 3 and e.id in one_def:
                return any(is_origin(v, depth + 1) for v in one_def[e.id])
            return False

        def is_root(e):
            if isinstance(e, ast.IfExp):
                return is_root(e.body) or is_root(e.orelse)
            return isinstance(e, ast.Call) and src(e.func) == 'PathNode' and len(e.args) >= 1 and is_origin(e.args[0])
        ok = any(isinstance(c, ast.Call) and isinstance(c.func, ast.Attribute) and c.func.attr == 'place' and c.args
                 and is_root(c.args[0]) for c in ast.walk(init.node))
        rep.ob('R16.1', init, 'root node is the start pose', ok, 'the root placed by the constructor is not PathNode(<origin>)')
        place = self._m(self.tree, 'place')

        class Cnt2(EventDomain):
            def on_call(s, call, state):
                (ins, cnt), consts = state
                f = call.func
                if isinstance(f, ast.Attribute) and f.attr == 'insert' and 'idx' in src(f.value):
                    ok_obj = len(call.args) >= 3 and src(call.args[2]) == place.params[1]
                    ins = min(ins + 1, 2) if ok_obj else 9
                return (((ins, cnt), consts),)

            def on_store(s, target, value, stmt, state):
                (ins, cnt), consts = state
                if isinstance(target, ast.Attribute) and target.attr == 'count':
                    good = isinstance(stmt, ast.AugAssign) and isinstance(stmt.op, ast.Add) and src(stmt.value) == '1'
                    cnt = min(cnt + 1, 2) if good else 9
                return (((ins, cnt), consts),)
        exits = Flow(Cnt2()).run(place.body(), {((0, 0), frozenset())})
        outs = sorted({e.state[0] for e in exits if e.kind in ('fall', 'return')})
        rep.ob('R16.1', place, '(index insertions, count increments) per place()', outs == [(1, 1)],
               'per-path (insert, count += 1) tallies %s; must be exactly (1, 1) with the node as the stored object' % outs)
        ga = self._m(self.tree, 'getAll')
        ok = any(isinstance(c, ast.Call) and isinstance(c.func, ast.Attribute) and c.func.attr == 'nearestNeighbors'
                 and len(c.args) == 2 and src(c.args[1]) in ('self.count', 'self.getCount()') for c in ast.walk(ga.node))
        rep.ob('R16.1', ga, 'getAll queries self.count neighbours', ok, 'getAll does not return all `count` nodes')

    def extraction(self):
        rep = self.rep
        rep.rule('R16.6', 'path = positions along getParent() from the node nearest the goal, prepended, then the goal')
        for name in ('findPath', 'findPathGeneral'):
            fi = self._m(self.rrt, name)
            goal = fi.params[-1]
            body = fi.body()
            wl = [n for n in body if isinstance(n, ast.While)]
            if len(wl) != 1:
                # a second recognised form: the ancestors come from R6Tree.getNeighborChain(node, bound), directly or through a method of the planner.
                # That walk stops after `bound` hops; only the number of nodes in the tree bounds the depth of a node, and the planner's settings
                # (iterations of the LAST growth call, ...) do not: a tree grown by several calls is deeper than the last budget.
                chain_calls, seen_m, todo_m = [], set(), [fi.node]
                while todo_m:
                    fn_ = todo_m.pop()
                    for c_ in ast.walk(fn_):
                        if isinstance(c_, ast.Call) and isinstance(c_.func, ast.Attribute):
                            if c_.func.attr == 'getNeighborChain' and len(c_.args) == 2:
                                chain_calls.append(c_)
                            elif isinstance(c_.func.value, ast.Name) and c_.func.value.id == 'self' and c_.func.attr in self.rrt.methods \
                                    and c_.func.attr not in seen_m and 'Tree' not in c_.func.attr:
                                seen_m.add(c_.func.attr)
                                todo_m.append(self.rrt.methods[c_.func.attr].node)
                capped = [c_ for c_ in chain_calls if norm_text(c_.args[1]) not in ('self.r6_tree_graph.getCount()', 'self.r6_tree_graph.count')]
                if not capped:
                    raise AnalysisError('%s: parent walk loop not recognised' % name)
                rep.ob('R16.6', fi, 'walk continues until the root', False,
                       '%s collects the ancestors with getNeighborChain(%s, %s): the chain stops after %s hops, so when the node nearest the goal lies deeper '
                       '(a tree grown by several calls, a budget lowered between calls) the returned path does not start at the start node'
                       % (name, src(capped[0].args[0]), src(capped[0].args[1]), src(capped[0].args[1])), line=capped[0].lineno)
                continue
            w = wl[0]
            # `while True: if <stop>: break; ...` is the loop `while not <stop>: ...`
            if isinstance(w.test, ast.Constant) and w.test.value is True and w.body and isinstance(w.body[0], ast.If) and not w.body[0].orelse \
                    and len(w.body[0].body) == 1 and isinstance(w.body[0].body[0], ast.Break) and not w.orelse:
                stop = w.body[0].test
                if isinstance(stop, ast.Compare) and len(stop.ops) == 1 and isinstance(stop.ops[0], (ast.Is, ast.Eq)) \
                        and isinstance(stop.comparators[0], ast.Constant) and stop.comparators[0].value is None:
                    go = ast.Compare(left=stop.left, ops=[ast.IsNot()], comparators=[ast.Constant(None)])
                else:
                    go = ast.UnaryOp(op=ast.Not(), operand=stop)
                w2 = ast.While(test=go, body=w.body[1:], orelse=[])
                ast.copy_location(w2, w)
                ast.fix_missing_locations(w2)
                body = [w2 if n is w else n for n in body]
                w = w2
            cur = None
            t = w.test
            if isinstance(t, ast.Compare) and isinstance(t.ops[0], ast.IsNot) and isinstance(t.left, ast.Name) \
                    and isinstance(t.comparators[0], ast.Constant) and t.comparators[0].value is None:
                cur = t.left.id
            rep.ob('R16.6', fi, 'while ' + src(t), cur is not None, 'walk does not continue until the root (`node is not None`)', line=w.lineno)
            if cur is None:
                continue
            k_w = body.index(w)
            before, after = body[:k_w], body[k_w + 1:]            # by position in the body (inlined helpers keep their own line numbers)
            # `return <walked list, possibly reversed> + [goal]` (directly or through temporaries) is `L = <reversed>; L.append(goal); return L`
            if after and isinstance(after[-1], ast.Return) and after[-1].value is not None:
                rv = resolved_in_block(after, after[-1].value)
                if isinstance(rv, ast.BinOp) and isinstance(rv.op, ast.Add) and isinstance(rv.right, ast.List) and len(rv.right.elts) == 1:
                    names_ = [x_ for x_ in ast.walk(rv.left) if isinstance(x_, ast.Name) and x_.id not in ('reversed', 'list')]
                    if len(names_) == 1:
                        L_ = names_[0].id
                        chain_, grow_ = {x_.id for x_ in ast.walk(after[-1].value) if isinstance(x_, ast.Name)}, True
                        while grow_:
                            grow_ = False
                            for s_ in after[:-1]:
                                if isinstance(s_, ast.Assign) and isinstance(s_.targets[0], ast.Name) and s_.targets[0].id in chain_:
                                    for x_ in ast.walk(s_.value):
                                        if isinstance(x_, ast.Name) and x_.id not in chain_:
                                            chain_.add(x_.id)
                                            grow_ = True
                        repl = []
                        if not isinstance(rv.left, ast.Name):
                            repl.append(ast.Assign(targets=[ast.Name(L_, ast.Store())], value=rv.left))
                        repl.append(ast.Expr(ast.Call(func=ast.Attribute(ast.Name(L_, ast.Load()), 'append', ast.Load()), args=[rv.right.elts[0]], keywords=[])))
                        repl.append(ast.Return(ast.Name(L_, ast.Load())))
                        for r_ in repl:
                            ast.copy_location(r_, after[-1])
                            ast.fix_missing_locations(r_)
                        after = [s_ for s_ in after[:-1] if not (isinstance(s_, ast.Assign) and isinstance(s_.targets[0], ast.Name)
                                                                 and s_.targets[0].id in chain_ and s_.targets[0].id != L_)] + repl
            start = [n for n in before if isinstance(n, ast.Assign) and src(n.targets[0]) == cur]
            start_txt = norm_text(resolved_in_block(before, start[-1].value)) if start else 'undefined'
            ok = bool(start) and 'nearestNeighbors(PathNode(%s),1)[0].object' % goal in start_txt.replace(' ', '')
            rep.ob('R16.6', fi, 'walk starts at the tree node nearest the goal', ok,
                   'start node is %s' % start_txt, line=w.lineno)
            ins = [c for s in w.body for c in ast.walk(s) if isinstance(c, ast.Call) and isinstance(c.func, ast.Attribute) and c.func.attr in ('insert', 'append')]
            lst = src(ins[0].func.value) if ins else None
            # root-to-node order: each position is prepended, or appended and the list reversed exactly once after the walk
            revs = [k_ for k_, s_ in enumerate(after) if (isinstance(s_, ast.Expr) and isinstance(s_.value, ast.Call) and norm_text(s_.value.func) == '%s.reverse' % lst and not s_.value.args)
                    or (isinstance(s_, ast.Assign) and src(s_.targets[0]) == lst and norm_text(s_.value) in ('%s[::-1]' % lst, 'list(reversed(%s))' % lst))]
            apps_goal = [k_ for k_, s_ in enumerate(after) if isinstance(s_, ast.Expr) and isinstance(s_.value, ast.Call) and norm_text(s_.value.func) == '%s.append' % lst]
            prepend = len(ins) == 1 and ins[0].func.attr == 'insert' and len(ins[0].args) == 2 and norm_text(resolved_in_block(w.body, ins[0].args[0])) == '0' \
                and norm_text(resolved_in_block(w.body, ins[0].args[1])) == cur + '.getPosition()' and not revs
            append_rev = len(ins) == 1 and ins[0].func.attr == 'append' and len(ins[0].args) == 1 \
                and norm_text(resolved_in_block(w.body, ins[0].args[0])) == cur + '.getPosition()' and len(revs) == 1 and (not apps_goal or revs[0] < apps_goal[0])
            rep.ob('R16.6', fi, 'prepend current position', prepend or append_rev,
                   'the walk does not record exactly the current node\'s position once per step in root-to-node order (prepend, or append and one reverse before the goal)', line=w.lineno)
            adv = [s for s in w.body if isinstance(s, ast.Assign) and src(s.targets[0]) == cur]
            order_ok = True
            if ins and adv:
                pos = {id(s_): k_ for k_, s_ in enumerate(w.body)}
                rec_stmt = [s_ for s_ in w.body if any(c is ins[0] for c in ast.walk(s_))]
                order_ok = bool(rec_stmt) and pos[id(adv[0])] > pos[id(rec_stmt[0])]
            ok = len(adv) == 1 and src(adv[0].value) == cur + '.getParent()' and order_ok
            rep.ob('R16.6', fi, 'advance by getParent() after recording', ok, 'walk does not advance along parent links after recording the node', line=w.lineno)
            app = [c for s in after for c in ast.walk(s) if isinstance(c, ast.Call) and isinstance(c.func, ast.Attribute) and c.func.attr == 'append']
            ok = len(app) == 1 and src(app[0].func.value) == lst and src(app[0].args[0]) == goal
            rep.ob('R16.6', fi, 'goal appended last', ok, 'goal is not appended exactly once after the walk')
            # ... on every way out: the append is a statement of the function body itself, not under a condition or in a loop
            uncond = [s_ for s_ in after if isinstance(s_, ast.Expr) and app and s_.value is app[0]]
            rep.ob('R16.6', fi, 'goal appended unconditionally', (not ok) or bool(uncond),
                   'the goal is appended only under a condition (%s): for some goals the returned path ends at a tree node instead of the goal'
                   % next((src(s_.test)[:80] for s_ in after if isinstance(s_, ast.If) and app and any(c is app[0] for c in ast.walk(s_))), 'nested statement'),
                   line=app[0].lineno if app else w.lineno)
            rets = [n for n in after if isinstance(n, ast.Return)]
            rep.ob('R16.6', fi, 'returns the walked list', bool(rets) and src(rets[0].value) == lst, 'returned value is not the walked list')
            # tree generated before extraction, once
            gens = [n for n in before if isinstance(n, ast.Expr) and isinstance(n.value, ast.Call)]
            rep.ob('R16.6', fi, 'tree generated once before extraction', len(gens) == 1,
                   '%d generation calls before the walk' % len(gens))
        # accessors
        pairs = (('getParent', 'parent'), ('getCost', 'cost'), ('getPosition', 'position'))
        for meth, field in pairs:
            fi = self._m(self.node, meth)
            rets = [n for n in walk_own(fi.node) if isinstance(n, ast.Return)]
            ok = len(rets) == 1 and src(rets[0].value) == 'self.' + field
            rep.ob('R16.6', fi, 'returns self.' + field, ok, '%s does not return the stored %s' % (meth, field))
        sp = self._m(self.node, 'setParent')
        il_sp = Inliner(sp)
        ok = any(isinstance(n, ast.Assign) and src(n.targets[0]) == 'self.parent' and src(il_sp.expand(n.value)) == sp.params[1] for n in walk_own(sp.node))
        rep.ob('R16.6', sp, 'self.parent = <argument>', ok, 'setParent does not store its argument as the parent')
        # setParent only links: the cost the growth loop stored for the node (with the planner's distance) is not recomputed behind its back
        def stores_of(meth, seen):
            """(field, receiver text, method) of every attribute store the node method `meth` can perform, followed through calls of node methods on
            any receiver (everything these methods handle is a node: parent.setChild(self), previous.removeChild(child), ...)"""
            f_ = self.node.methods.get(meth)
            if f_ is None or meth in seen:
                return set()
            seen.add(meth)
            out = set()
            for n in walk_own(f_.node):
                for t in (n.targets if isinstance(n, ast.Assign) else ([n.target] if isinstance(n, (ast.AugAssign, ast.AnnAssign)) else [])):
                    for t_ in (t.elts if isinstance(t, (ast.Tuple, ast.List)) else [t]):
                        b = t_
                        while isinstance(b, ast.Subscript):
                            b = b.value
                        if isinstance(b, ast.Attribute):
                            out.add((b.attr, src(b.value), meth))
                if isinstance(n, ast.Call) and isinstance(n.func, ast.Name) and n.func.id == 'setattr' and len(n.args) >= 2 and \
                        isinstance(n.args[1], ast.Constant):
                    out.add((n.args[1].value, src(n.args[0]), meth))
                if isinstance(n, ast.Call) and isinstance(n.func, ast.Attribute) and n.func.attr in self.node.methods:
                    out |= stores_of(n.func.attr, seen)
            return out

        st_sp = stores_of('setParent', set())
        w_sp = {f for (f, _r, _m) in st_sp}
        via = sorted({m_ for (f, _r, m_) in st_sp if f == 'cost' and m_ != 'setParent'})
        rep.ob('R16.6', sp, 'setParent does not touch the stored cost', 'cost' not in w_sp,
               'setParent (directly or through %s) rewrites a stored cost: the cost the growth loop stored for the node (with the planner\'s distance function) '
               'is replaced behind its back, so stored cost != parent cost + supplied distance' % (via or 'its own body'))
        ini = self._m(self.node, '__init__')
        ok = ini.defaults.get('parent') is not None and src(ini.defaults['parent']) == 'None' and \
            any(isinstance(n, ast.Assign) and src(n.targets[0]) == 'self.parent' and src(n.value) == 'parent' for n in walk_own(ini.node))
        rep.ob('R16.6', ini, 'root has no parent (default None stored)', ok, 'a node built without a parent does not get parent None')
        gt = self._m(self.rrt, 'generateTree')
        ok = any(isinstance(c, ast.Call) and isinstance(c.func, ast.Attribute) and c.func.attr == 'generalGenerateTree' for c in ast.walk(gt.node))
        rep.ob('R16.6', gt, 'generateTree delegates to generalGenerateTree', ok, 'default tree method bypasses the checked growth loop')
        # ... with the planner's own sampler, metric and collision test, each handed the pair of nodes and nothing else: the tree of the
        # default route is collision-free under planner.obstruction (all registered boxes), and its costs use planner.distance
        gcalls = [c for c in ast.walk(gt.node) if isinstance(c, ast.Call) and isinstance(c.func, ast.Attribute) and c.func.attr == 'generalGenerateTree']
        ggt = self._m(self.rrt, 'generalGenerateTree')
        want = {1: ('distance', 2), 2: ('obstruction', 2)}
        for c in gcalls:
            for k, (meth, arity) in want.items():
                pname = ggt.params[k + 1] if k + 1 < len(ggt.params) else None
                a_ = c.args[k] if k < len(c.args) else next((kw.value for kw in c.keywords if kw.arg == pname), None)
                ok_ = False
                got = src(a_)[:80] if a_ is not None else 'nothing'
                if isinstance(a_, ast.Attribute) and isinstance(a_.value, ast.Name) and a_.value.id == 'self' and a_.attr == meth:
                    ok_ = True
                elif isinstance(a_, ast.Lambda) and not a_.args.defaults and not a_.args.kwonlyargs and len(a_.args.args) == arity:
                    b = a_.body
                    ok_ = isinstance(b, ast.Call) and src(b.func) == 'self.' + meth and not b.keywords \
                        and [src(x) for x in b.args] == [x.arg for x in a_.args.args]
                rep.ob('R16.6', gt, 'generateTree hands generalGenerateTree self.%s applied to the two nodes' % meth, ok_,
                       ('the %s callback of the default route is %s: it is not the planner\'s own %s applied to exactly the two nodes (e.g. a '
                        'pre-filtered obstruction subset: edges from nodes outside the filtered region are then not tested against every '
                        'registered box, so the tree has parent links that collide under planner.obstruction)' % (pname, got, meth)), line=c.lineno)

    def shared_objects(self):
        from .common_ops import shared_field_objects
        rep = self.rep
        rep.rule('R16.10', 'no mutable object is bound to two fields of a planner / node / index object in one method without a copy')
        n10 = sum(shared_field_objects(rep, 'R16.10', ci_, what='the tree') for ci_ in (self.rrt, self.node, self.tree) if ci_ is not None)
        rep.floor('R16.10', 'field stores of the planner classes examined', n10, 15)

    def index_layout(self):
        """R16.9: the spatial index stores and queries a node at its own position: for each supported dimensionality d the coordinate
        tuple handed to the R-tree is the point box (p[0..d-1], p[0..d-1]) of the node's position, in place() and nearestNeighbors()."""
        from ..engine.paths import paths_of
        rep = self.rep
        rep.rule('R16.9', 'R6Tree.place / nearestNeighbors hand the R-tree the point box (p[0..d-1], p[0..d-1]) of the node position for the dimensionality d of the tree')
        n = 0
        for meth, callee, argpos in (('place', 'self.idx.insert', 1), ('nearestNeighbors', 'self.idx.nearest', 0)):
            if self.tree.methods.get(meth) is None:
                raise AnalysisError('anchor vanished: R6Tree.' + meth)
            fi = self._m(self.tree, meth)           # a shared point-box helper read in place
            node_p = fi.params[1]
            for d in (6, 3):
                want = '(' + ','.join(['%s.getPosition()[%d]' % (node_p, k) for k in range(d)] * 2) + ')'
                ps = paths_of(fi.node, fi.params, consts={'self.dimension': d})
                sites = [(ev, pth) for pth in ps for ev in pth.calls(lambda t: t == callee)]
                rep.ob('R16.9', fi, '%s: index call reached for dimension %d' % (meth, d), bool(sites),
                       '%s makes no %s call when the tree has dimension %d' % (meth, callee, d), shape=True)
                for ev, pth in sites:
                    n += 1
                    got = ev[2][argpos] if len(ev[2]) > argpos else '?'
                    elems = _coords(ev[4][argpos] if len(ev) > 4 and len(ev[4]) > argpos else got, d)
                    import re as _re16
                    pos_txt = '%s.getPosition()' % node_p

                    def _unwrap(t):
                        # tm(<a tm>) and .copy() give a transform with the same coordinates
                        prev = None
                        while prev != t:
                            prev = t
                            t = t.replace('tm(%s)' % pos_txt, pos_txt).replace('%s.copy()' % pos_txt, pos_txt)
                        return t
                    if elems is not None:
                        elems = [_unwrap(x) for x in elems]
                    same = (elems == ['%s[%d]' % (pos_txt, k) for k in range(d)] * 2) if elems is not None else (_unwrap(got) == want)
                    # ... and nothing rewrites the pose (or the copy the coordinates are read from) before the index sees it
                    PURE = ('getPosition', 'copy', 'gTAA', 'gTM', 'gPos', 'gRot', 'getQuat', 'getTAA', 'getTM', 'flatten', 'tolist', 'inv', 'adjoint')
                    for e2 in pth.events:
                        if e2 is ev:
                            break
                        if e2[0] == 'call' and '.' in e2[1]:
                            recv, attr = e2[1].rsplit('.', 1)
                            if _unwrap(recv) == pos_txt and attr not in PURE:
                                same = False
                                got = 'read after %s() rewrote the pose: %s' % (e2[1], got)
                        elif e2[0] == 'store' and _unwrap(e2[1].split('[')[0]).startswith(pos_txt):
                            same = False
                            got = 'read after the store %s: %s' % (e2[1], got)
                    rep.ob('R16.9', fi, '%s (dimension %d): coordinates = position twice' % (meth, d), same,
                           'a %d-dimensional tree is given the box %s; expected the point box of the node position %s (the index then stores / searches '
                           'the wrong place or rejects the call)' % (d, got[:150], want[:60] + '...'), line=ev[3])
                    if meth == 'place':
                        rep.ob('R16.9', fi, 'place (dimension %d): the node itself is the stored object' % d, len(ev[2]) >= 3 and ev[2][2] == node_p,
                               'object stored in the index is %s' % (ev[2][2] if len(ev[2]) >= 3 else '?'), line=ev[3])
        rep.floor('R16.9', 'index calls examined', n, 4)

    def metric(self):
        """R16.11: the cost bookkeeping and the acceptance test measure with the mode that is SET: RRTStar.distance picks the metric from
        self.dmode on every call and keeps nothing between calls (normal-form equality with the two-branch selection, effects included)."""
        from ..engine import tv as _tv
        rep = self.rep
        rep.rule('R16.11', 'RRTStar.distance = arcDistance when dmode == 1, else distance - decided on every call from the current dmode, nothing remembered')
        fi = self.rrt.methods.get('distance')
        if fi is None or len(fi.params) < 3:
            raise AnalysisError('anchor vanished: RRTStar.distance')
        p1, p2 = fi.params[1], fi.params[2]
        try:
            ok, why = _tv.fi_matches_spec(self.model, fi, """
                def distance(self, %s, %s):
                    if self.dmode == 1:
                        return fsr.arcDistance(%s, %s)
                    else:
                        return fsr.distance(%s, %s)
                """ % (p1, p2, p1, p2, p1, p2))
        except AnalysisError as ex:
            ok, why = False, str(ex)
        if not ok:
            # the same decided on path summaries (conditional expressions lowered, locals read in place): every path returns the metric that
            # belongs to the truth of `self.dmode == 1` on that path, stores nothing and tests nothing else
            from ..engine import peval as _pe16
            from ..engine.paths import paths_of as _p16
            flat = _pe16.flatten({}, fi.node, depth=0, impure=True)
            import copy as _cp16

            class _CallOfChoice(ast.NodeTransformer):
                # (f if c else g)(args)  ==  f(args) if c else g(args)
                def visit_Call(s_, n_):
                    s_.generic_visit(n_)
                    if isinstance(n_.func, ast.IfExp):
                        return ast.copy_location(ast.IfExp(test=n_.func.test,
                                                           body=ast.Call(func=n_.func.body, args=n_.args, keywords=n_.keywords),
                                                           orelse=ast.Call(func=n_.func.orelse, args=_cp16.deepcopy(n_.args), keywords=_cp16.deepcopy(n_.keywords))), n_)
                    return n_
            flat = _CallOfChoice().visit(flat)
            nb = []
            for st_ in flat.body:
                if isinstance(st_, ast.Assign) and isinstance(st_.value, ast.IfExp):
                    nb.append(ast.copy_location(ast.If(test=st_.value.test, body=[ast.Assign(targets=st_.targets, value=st_.value.body)],
                                                       orelse=[ast.Assign(targets=_cp16.deepcopy(st_.targets), value=st_.value.orelse)]), st_))
                elif isinstance(st_, ast.Return) and isinstance(st_.value, ast.IfExp):
                    nb.append(ast.copy_location(ast.If(test=st_.value.test, body=[ast.Return(value=st_.value.body)], orelse=[ast.Return(value=st_.value.orelse)]), st_))
                else:
                    nb.append(st_)
            flat.body = nb
            ast.fix_missing_locations(flat)
            bad = []
            for pth in _p16(flat, fi.params):
                st = [e for e in pth.events if e[0] == 'store']
                if st:
                    bad.append('stores %s' % st[0][1])
                    continue
                mode = None
                for k_, v_ in pth.facts.items():
                    kk = k_.replace(' ', '')
                    if kk in ('self.dmode==1', '1==self.dmode'):
                        mode = v_
                    elif kk in ('self.dmode!=1', '1!=self.dmode'):
                        mode = not v_
                    else:
                        bad.append('tests %s' % k_)
                want = {True: 'fsr.arcDistance(%s,%s)' % (p1, p2), False: 'fsr.distance(%s,%s)' % (p1, p2)}.get(mode)
                if want is None or pth.ret != want:
                    bad.append('returns %s when (dmode == 1) is %s' % (pth.ret, mode))
            if not bad:
                ok = True
            else:
                why = '; '.join(bad[:2])
        rep.ob('R16.11', fi, 'distance(p1, p2) selects the metric from the current self.dmode', ok,
               'RRTStar.distance is not the per-call selection between fsr.arcDistance (dmode 1) and fsr.distance: %s - with a metric that is chosen once (or read '
               'from anything but the current dmode) nodes grown after `dmode` is changed get costs, acceptance decisions and parents under the other metric' % why[:200])

    def node_identity(self):
        """R16.12: the spatial index pickles the nodes it stores and hands back unpickled copies on every query.  A copy carries the cost, parent
        and children the planner assigned only if PathNode is pickled field by field (the default): a pickling hook that rebuilds a node
        through its constructor re-derives those fields."""
        rep = self.rep
        rep.rule('R16.12', 'PathNode defines no pickling / copying hook (__reduce__, __reduce_ex__, __getstate__, __setstate__, __getnewargs__, __copy__, __deepcopy__): '
                           'nodes returned by the index carry the bookkeeping the planner assigned')
        HOOKS = ('__reduce__', '__reduce_ex__', '__getstate__', '__setstate__', '__getnewargs__', '__getnewargs_ex__', '__copy__', '__deepcopy__')
        present = [h for h in HOOKS if h in self.node.methods]
        # the node's position is a tm: pickled inside the node, field by field as well (a hook that rebuilds it from one representation re-derives
        # the other - a six-vector with a rotation beyond pi comes back wrapped, so the node no longer sits where the index filed it)
        tmc = self.model.cls('basic_robotics.general.faser_transform', 'tm')
        present_tm = [h for h in HOOKS if tmc is not None and h in tmc.methods]
        rep.ob('R16.12', tmc.methods['__init__'] if tmc is not None and '__init__' in tmc.methods else self.node.methods['__init__'],
               'tm (the node position) is pickled field by field', not present_tm,
               'tm defines %s: every node the R-tree stores is pickled with its position, and the copies handed back by nearest / intersection queries rebuild the '
               'position through that hook - from one of its two representations, so the other is re-derived (a rotation vector beyond pi is wrapped) and the '
               'nodes exposed by the tree are not the samples that were accepted, filed and measured' % ', '.join(present_tm))
        rep.ob('R16.12', self.node.methods['__init__'], 'PathNode is pickled field by field', not present,
               'PathNode defines %s: the R-tree stores pickled nodes and every nearest / intersection query returns unpickled copies, so a node rebuilt by that hook '
               '(through the constructor, from some of its fields) no longer has the cost / parent the planner assigned - stored costs stop being parent cost plus '
               'edge length under the metric in use' % ', '.join(present))

    def progress(self):
        rep = self.rep
        rep.rule('R16.7', 'progress display: divisor is >= 1 for every budget >= 1 (or the division is guarded)')
        pb = self.model.func(DISP, 'progressBar')
        total = pb.params[1]
        divs = [n for n in ast.walk(pb.node) if isinstance(n, ast.BinOp) and isinstance(n.op, (ast.Div, ast.FloorDiv, ast.Mod))
                and total in {x.id for x in ast.walk(n.right) if isinstance(x, ast.Name)}]
        guarded = True
        if divs:
            found = {}

            class D(FactDomain):
                def _chk(s, node, facts):
                    for b in ast.walk(node):
                        if b in divs:
                            g = any((f[0] is False and f[1] in ('%s == 0' % total,)) or (f[0] is True and f[1] in ('%s > 0' % total, total, '%s >= 1' % total))
                                    for f in facts)
                            found[src(b)] = found.get(src(b), True) and g

                def on_store(s, target, value, stmt, state):
                    if value is not None:
                        s._chk(value, state[0][0])
                    return super().on_store(target, value, stmt, state)

                def user_call(s, call, facts, user):
                    s._chk(call, facts)
                    return user
            Flow(D()).run(pb.body(), {((frozenset(), None), frozenset())})
            guarded = bool(found) and all(found.values())
        n_sites = 0
        for fi in self.model.funcs_in(MOD):
            for c in [x for x in walk_own(fi.node) if isinstance(x, ast.Call) and isinstance(x.func, ast.Name) and x.func.id == 'progressBar']:
                n_sites += 1
                if guarded or len(c.args) < 2:
                    rep.ob('R16.7', fi, src(c), True, 'callee guards its divisions', line=c.lineno)
                    continue
                # enclosing `for v in range(B)`: B >= 1 inside the body; total = B + k needs k >= 0
                p = fi.module.parents.get(c)
                bound = None
                while p is not None and p is not fi.node:
                    if isinstance(p, ast.For) and isinstance(p.iter, ast.Call) and src(p.iter.func) == 'range' and len(p.iter.args) == 1:
                        bound = src(p.iter.args[0])
                        break
                    p = fi.module.parents.get(p)
                arg = c.args[1]
                k = None
                if bound is not None:
                    if src(arg) == bound:
                        k = 0
                    elif isinstance(arg, ast.BinOp) and src(arg.left) == bound and isinstance(arg.right, ast.Constant) and isinstance(arg.right.value, int):
                        k = arg.right.value if isinstance(arg.op, ast.Add) else (-arg.right.value if isinstance(arg.op, ast.Sub) else None)
                if k is None:
                    rep.unresolved_item('R16.7', fi.where, 'divisor %s not affine in the loop bound' % src(arg))
                    continue
                rep.ob('R16.7', fi, src(c), k >= 0,
                       'progressBar divides by its `total` = %s, which is %d for a budget of %d iteration(s) (ZeroDivisionError '
                       'before the first node is grown)' % (src(arg), 1 + k, 1) if k < 0 else 'total >= 1 inside the loop', line=c.lineno)
        rep.count('progressBar call sites in the planner', n_sites)


def check(model, rep):
    rep.extra['explanation'] = (
        'Path-sensitive analysis of one iteration of the RRT* growth loop (all paths at once): insertion counting, '
        'must-facts for collision freedom and distance range with staleness tracking of derived locals, pairing of the '
        'stored cost expression with the chosen parent, receiver discipline (only the not-yet-inserted node is wired), '
        'structural check of path extraction and accessors, affine non-zero-divisor check of the progress display.')
    rep.assumptions.append('caller-supplied generator/distance/collision callbacks are pure; rtree nearest() is exact (library)')
    ck = Checker(model, rep)
    ck.growth()
    ck.bookkeeping()
    ck.extraction()
    ck.index_layout()
    ck.shared_objects()
    ck.progress()
    ck.metric()
    ck.node_identity()
