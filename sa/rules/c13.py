"""C13 - loading a URDF preserves the kinematics the file describes.

Decided statically on loadArmFromURDF (kinematics/arm_model.py):
  R13.0 an Arm can be constructed at all (np attributes resolve) - shared with C05.
  R13.1 optional elements take their defaults: on EVERY path through the joint parser (also when the
        <axis> / <origin> child is absent) the joint's axis and origin are assigned non-None values
        (URDF defaults: axis 1 0 0, identity origin); missing xyz / rpy attributes become zeros before
        .split(); the link-side use of the (inertial) origin stays under the co-assigned mass guard.
  R13.2 origin convention: joint origin = translate(xyz) then rotations about z by rpy[2], about y by
        rpy[1], about x by rpy[0] in that order (fixed-axis roll-pitch-yaw), each value in its own slot.
  R13.3 per-moving-joint bookkeeping in the chain walk: every iteration that handles a moving joint makes
        exactly one append to joint_names / joint_mins / joint_maxs (from that joint's own fields), writes
        column `arrind` of the axis and position tables once and then advances arrind by one; iterations
        that handle links / fixed joints make none of these and only compose poses; the DOF pre-count
        uses the complementary predicate.
  R13.4 screw i = [axis_i ; cross(point_i, axis_i)] with the axis rotated by the accumulated joint pose and
        the point its translation; the arm is built at the identity base with the last accumulated pose as
        tool home and limits/names passed in file order.
Not decided: FK equality with the file's semantics to 1e-6 (numerical).
"""
import ast

from ..engine.model import AnalysisError, src, walk_own
from ..engine.flow import Flow, Domain
from ..engine.inline import Inliner, norm_text, block_env, canon_names, same_tree, cmp_parts
from ..engine.typestate import EventDomain, FactDomain
from .c05 import r050

ARM = 'basic_robotics.kinematics.arm_model'


def nested(model, outer, name):
    for f in model.all_funcs:
        if f.outer is outer and f.name == name:
            return f
    raise AnalysisError('anchor vanished: %s.<locals>.%s' % (outer.qualname, name))


class PoseDomain(Domain):
    """One iteration of the URDF chain walk over symbolic poses.  A pose value is a tuple of factor names (a product);
    state = (env, facts, events): env maps pose variables (and `<list>[-1]`) to products, facts are the assumed element-kind
    atoms, events the recorded uses (link pose appended, joint pose appended, table column written)."""

    ORIGIN = 'temp_element.xyz_origin'
    KINDS = ("temp_element.type=='link'", "temp_element.sub_type=='fixed'", "temp_element.type=='joint'")

    def __init__(self, lst, scalars):
        self.lst = lst
        self.scalars = scalars

    helpers = {}          # nested single-return helpers of the loader: name -> (parameter names, returned expression)

    def ev(self, e, env):
        env = dict(env)
        if isinstance(e, ast.Name):
            return env.get(e.id, env.get('~' + e.id, ('?' + e.id,)))
        t = src(e).replace(' ', '')
        if t == self.lst + '[-1]':
            return env[self.lst + '[-1]']
        if t == self.ORIGIN:
            return ('O',)
        if isinstance(e, ast.BinOp) and isinstance(e.op, ast.MatMult):
            return self.ev(e.left, env) + self.ev(e.right, env)
        if isinstance(e, ast.Call) and isinstance(e.func, ast.Attribute) and e.func.attr == 'copy' and not e.args:
            return self.ev(e.func.value, env)
        # the same product spelled on the 4x4 matrices: tm(A.gTM() @ B.gTM()), tm(np.dot(A.TM, B.TM)), ...
        if isinstance(e, ast.Call) and isinstance(e.func, ast.Attribute) and e.func.attr in ('gTM', 'getTM') and not e.args:
            return self.ev(e.func.value, env)
        if isinstance(e, ast.Attribute) and e.attr == 'TM':
            return self.ev(e.value, env)
        if isinstance(e, ast.Call) and src(e.func) in ('np.dot', 'np.matmul', 'numpy.dot', 'numpy.matmul') and len(e.args) == 2 and not e.keywords:
            return self.ev(e.args[0], env) + self.ev(e.args[1], env)
        if isinstance(e, ast.Call) and src(e.func) == 'tm' and len(e.args) == 1 and not e.keywords:
            v = self.ev(e.args[0], env)
            if not any(x.startswith('?') for x in v):
                return v
        if isinstance(e, ast.Call) and isinstance(e.func, ast.Name) and e.func.id in self.helpers and not e.keywords:
            params, body = self.helpers[e.func.id]
            if len(params) == len(e.args):
                env2 = dict(env)
                for p_, a_ in zip(params, e.args):
                    env2['~' + p_] = self.ev(a_, env)
                    env2.pop(p_, None)
                return self.ev(body, tuple(env2.items()))
        return ('?' + t,)

    def transfer(self, stmt, state):
        env, facts, events = state
        d = dict(env)
        if isinstance(stmt, ast.Assign) and len(stmt.targets) == 1:
            t = stmt.targets[0]
            tt = src(t).replace(' ', '')
            if isinstance(t, ast.Name) and t.id == 'temp_element':
                facts = facts | {('ADVANCED', True)}        # later tests speak about the next element
            if (isinstance(t, ast.Name) and t.id in self.scalars) or tt == self.lst + '[-1]':
                d[tt] = self.ev(stmt.value, env)
            elif isinstance(t, ast.Name) and t.id != 'temp_element':
                # a temporary holding a pose of the iteration is read in place (kept apart from the accumulated poses: '~' keys)
                v_ = self.ev(stmt.value, env)
                if not any(x.startswith('?') for x in v_):
                    d['~' + t.id] = v_
                else:
                    d.pop('~' + t.id, None)
            elif isinstance(t, ast.Subscript) and isinstance(t.value, ast.Name) and t.value.id in ('joint_axes', 'joint_homes'):
                v = stmt.value
                arg = None
                if t.value.id == 'joint_axes' and isinstance(v, ast.Call) and src(v.func) == 'determineAxis' and len(v.args) == 2 \
                        and src(v.args[1]).replace(' ', '') == 'temp_element.axis':
                    arg = v.args[0]
                if t.value.id == 'joint_homes':
                    vt = v
                    if isinstance(vt, ast.Call) and isinstance(vt.func, ast.Attribute) and vt.func.attr in ('flatten', 'reshape', 'ravel'):
                        vt = vt.func.value
                    if isinstance(vt, ast.Subscript) and src(vt.slice).replace(' ', '') in ('0:3', ':3'):
                        arg = vt.value
                events = events + ((t.value.id, self.ev(arg, env) if arg is not None else ('?' + src(v)[:40],), stmt.lineno),)
        elif isinstance(stmt, ast.AugAssign) and isinstance(stmt.op, ast.MatMult):
            tt = src(stmt.target).replace(' ', '')
            if tt in d:
                d[tt] = d[tt] + self.ev(stmt.value, env)
        elif isinstance(stmt, ast.Expr) and isinstance(stmt.value, ast.Call) and isinstance(stmt.value.func, ast.Attribute) \
                and stmt.value.func.attr == 'append' and isinstance(stmt.value.func.value, ast.Name) and len(stmt.value.args) == 1:
            who = stmt.value.func.value.id
            if who == self.lst:
                v = self.ev(stmt.value.args[0], env)
                d[self.lst + '[-1]'] = v
                events = events + (('joint_pose', v, stmt.lineno),)
            elif who == 'link_poses':
                events = events + (('link_pose', self.ev(stmt.value.args[0], env), stmt.lineno),)
        return ((tuple(sorted(d.items())), facts, events),)

    def assume(self, test, truth, state):
        env, facts, events = state
        t = src(test).replace(' ', '').replace('"', "'")
        if t in self.KINDS and ('ADVANCED', True) not in facts:
            if (t, not truth) in facts:
                return None
            facts = facts | {(t, truth)}
            # a link is not a joint
            f = dict(facts)
            if f.get(self.KINDS[0]) is True and f.get(self.KINDS[2]) is True:
                return None
        return (env, facts, events)


def pose_walk(load, walk, rep):
    """R13.3/R13.4 pose obligations, decided on the symbolic products of every path through one iteration."""
    # the pose list and the scalar pose variables
    pre = [n for n in load.body() if n.lineno < walk.lineno]
    lst = None
    init = {}
    for n in pre:
        if isinstance(n, ast.Assign) and len(n.targets) == 1 and isinstance(n.targets[0], ast.Name):
            if isinstance(n.value, ast.List) and len(n.value.elts) == 1 and isinstance(n.value.elts[0], ast.Name) and n.targets[0].id == 'joint_poses':
                lst = n.targets[0].id
                init[lst + '[-1]'] = n.value.elts[0].id
    if lst is None:
        raise AnalysisError('loadArmFromURDF: the list of accumulated joint poses (joint_poses = [home]) is not recognised')
    scalars = set()
    for n in ast.walk(walk):
        if isinstance(n, (ast.Assign, ast.AugAssign)):
            t = n.targets[0] if isinstance(n, ast.Assign) else n.target
            if isinstance(t, ast.Name) and PoseDomain.ORIGIN in src(n.value).replace(' ', '') and '@' in src(n.value) + ('@' if isinstance(n, ast.AugAssign) else ''):
                scalars.add(t.id)
    for n in pre:
        if isinstance(n, ast.Assign) and len(n.targets) == 1 and isinstance(n.targets[0], ast.Name) and n.targets[0].id in scalars and isinstance(n.value, ast.Name):
            init[n.targets[0].id] = n.value.id
    arm_call = [c for c in ast.walk(load.node) if isinstance(c, ast.Call) and src(c.func) == 'Arm']
    run = src(Inliner(load).expand(arm_call[0].args[2])).replace(' ', '') if arm_call and len(arm_call[0].args) > 2 else None      # a temporary holding the pose is read in place
    keys = sorted(scalars | {lst + '[-1]'})
    res = {'run': run, 'tables_ok': False, 'tables_msg': 'tables not analysed'}
    if run not in keys:
        rep.ob('R13.4', load, 'tool home = the accumulated pose', False,
               'Arm receives `%s` as its home tool pose, which is not one of the poses accumulated by the walk (%s)' % (run, ', '.join(keys)))
        return res
    dom = PoseDomain(lst, scalars)
    dom.helpers = {}
    for n in ast.walk(load.node):
        if isinstance(n, ast.FunctionDef) and n is not load.node and not n.args.defaults and not n.args.kwonlyargs:
            body_ = [b_ for b_ in n.body if not (isinstance(b_, ast.Expr) and isinstance(b_.value, ast.Constant))]
            if len(body_) == 1 and isinstance(body_[0], ast.Return) and body_[0].value is not None:
                dom.helpers[n.name] = ([a_.arg for a_ in n.args.args], body_[0].value)
    unified = len({init.get(k) for k in keys}) == 1 and None not in {init.get(k) for k in keys}

    def go(uni):
        env = tuple(sorted((k, ('P',) if uni else ('P:' + k,)) for k in keys))
        ends, brks, exits = Flow(dom).run_loop_body(walk.body, {(env, frozenset(), ())})
        return env, ends
    env0, ends = go(unified)
    if unified and not all(len({v for k, v in e[0] if not k.startswith('~')}) == 1 for e in ends):
        unified = False
        env0, ends = go(False)
    old = dict(env0)[run]
    n_paths = {'link': 0, 'fixed': 0, 'moving': 0}
    bad = {}
    tables = {}
    for (env, facts, events) in ends:
        f = dict(facts)
        is_link = f.get(PoseDomain.KINDS[0]) is True
        is_fixed = f.get(PoseDomain.KINDS[1]) is True
        kind = 'fixed' if is_fixed else ('link' if is_link else 'moving')
        n_paths[kind] += 1
        new = dict(env)[run]
        want = old if kind == 'link' else old + ('O',)
        if new != want:
            bad.setdefault(kind, 'after a %s element the accumulated pose `%s` is %s, expected %s' % (
                kind if kind == 'link' else kind + ' joint', run, ' @ '.join(new), ' @ '.join(want)))
        for (what, val, line) in events:
            if what == 'link_pose' and val != old + ('O',):
                bad.setdefault('link_pose', 'line %d: the pose stored for a link is %s, expected accumulated pose @ inertial origin (%s)' % (line, ' @ '.join(val), ' @ '.join(old + ('O',))))
            if what == 'joint_pose' and (kind != 'moving' or val != old + ('O',)):
                bad.setdefault('joint_pose', 'line %d: the pose appended for a joint is %s, expected %s on the moving-joint path only' % (line, ' @ '.join(val), ' @ '.join(old + ('O',))))
            if what in ('joint_axes', 'joint_homes'):
                tables.setdefault(what, set()).add((val == old + ('O',) and kind == 'moving', ' @ '.join(val), line))
    legend = ' (P = pose at the start of the iteration, O = this element\'s origin%s)' % ('' if unified else '; the pose variables are not kept equal by the walk, P:<name> = value of <name> at the start of the iteration')
    rep.ob('R13.3', load, 'fixed joints are folded into the running pose', 'fixed' not in bad and n_paths['fixed'] > 0, bad.get('fixed', 'no fixed-joint path found') + legend, line=walk.lineno)
    rep.ob('R13.3', load, 'moving joints extend the pose chain by their origin', 'moving' not in bad and 'joint_pose' not in bad and n_paths['moving'] > 0,
           bad.get('moving', bad.get('joint_pose', 'no moving-joint path found')) + legend, line=walk.lineno)
    rep.ob('R13.3', load, 'links leave the running pose alone; link pose = running pose @ inertial origin', 'link' not in bad and 'link_pose' not in bad and n_paths['link'] > 0,
           bad.get('link', bad.get('link_pose', 'no link path found')) + legend, line=walk.lineno)
    rep.count('R13.3 iteration paths by element kind', sum(n_paths.values()))
    ok = set(tables) == {'joint_axes', 'joint_homes'} and all(all(t[0] for t in v) for v in tables.values())
    res['tables_ok'] = ok
    res['tables_msg'] = 'tables filled from %s' % {k: sorted((t[1], t[2]) for t in v) for k, v in tables.items()} + legend
    return res


def canonicalise_roles(load):
    """The rules below speak about the loader's locals by ROLE.  Discover which local plays each role from how it is used
    (which argument of Arm / setNames / setJointProperties / setOrigins it becomes, which variable walks the chain, which
    one indexes the per-joint tables) and rename it - in this process' copy of the syntax tree only - to the role's name,
    so that the rules do not depend on what the maintainer calls these variables."""
    il = Inliner(load)
    own = list(walk_own(load.node))
    calls = [c for c in own if isinstance(c, ast.Call)]

    def one(pred, what):
        got = [c for c in calls if pred(c)]
        if len(got) != 1:
            raise AnalysisError('loadArmFromURDF: %s not recognised (%d candidates)' % (what, len(got)))
        return got[0]

    def name_of(e, what):
        last_name = None
        for _ in range(4):
            if isinstance(e, ast.Name) and isinstance(il.single(e.id), (ast.Call, ast.Name)):
                last_name = e
                e = il.single(e.id)         # a temporary holding the argument
            elif isinstance(e, ast.Call) and norm_text(e.func) in ('np.array', 'np.asarray') and e.args:
                e = e.args[0]
            else:
                break
        if isinstance(e, ast.Subscript):
            e = e.value
        if not isinstance(e, ast.Name) and last_name is not None:
            e = last_name                   # built by one expression (e.g. a stacked table): the local itself plays the role
        if not isinstance(e, ast.Name):
            raise AnalysisError('loadArmFromURDF: %s is not a local variable (%s)' % (what, norm_text(e)[:40]))
        return e.id
    roles = {}
    arm_call = one(lambda c: isinstance(c.func, ast.Name) and c.func.id == 'Arm' and len(c.args) == 5, 'the Arm(...) construction')
    roles[name_of(arm_call.args[1], 'screw table')] = 'screw_list'
    roles[name_of(arm_call.args[3], 'joint point table')] = 'joint_homes'
    roles[name_of(arm_call.args[4], 'joint axis table')] = 'joint_axes'
    sj = one(lambda c: isinstance(c.func, ast.Attribute) and c.func.attr == 'setJointProperties' and len(c.args) >= 2, 'setJointProperties call')
    roles[name_of(sj.args[0], 'lower limits')] = 'joint_mins'
    roles[name_of(sj.args[1], 'upper limits')] = 'joint_maxs'
    sn = one(lambda c: isinstance(c.func, ast.Attribute) and c.func.attr == 'setNames' and len(c.args) == 3, 'setNames call')
    roles[name_of(sn.args[2], 'joint names')] = 'joint_names'
    so = one(lambda c: isinstance(c.func, ast.Attribute) and c.func.attr == 'setOrigins' and len(c.args) >= 3, 'setOrigins call')
    roles[name_of(so.args[1], 'joint poses')] = 'joint_poses'
    roles[name_of(so.args[2], 'link poses')] = 'link_poses'
    walkers = set()
    for n in load.body():
        cp = cmp_parts(n.test, left=lambda t: t.endswith('.num_children')) if isinstance(n, ast.While) else None
        if cp is not None and cp[1] == '>' and cp[2] == '0' and cp[0].count('.') == 1:
            walkers.add(cp[0].split('.')[0])
    if len(walkers) != 1:
        raise AnalysisError('loadArmFromURDF: chain-walking variable not recognised')
    roles[walkers.pop()] = 'temp_element'
    inv = {v: k for k, v in roles.items()}
    idx = set()
    for n in own:
        if isinstance(n, ast.Assign) and isinstance(n.targets[0], ast.Subscript) and isinstance(n.targets[0].value, ast.Name) \
                and n.targets[0].value.id in (inv['joint_axes'], inv['joint_homes']) and isinstance(n.targets[0].slice, ast.Tuple) \
                and len(n.targets[0].slice.elts) == 2 and isinstance(n.targets[0].slice.elts[1], ast.Name):
            idx.add(n.targets[0].slice.elts[1].id)
    if len(idx) != 1:
        raise AnalysisError('loadArmFromURDF: per-joint column index not recognised')
    roles[idx.pop()] = 'arrind'
    for n in own:
        if isinstance(n, ast.For) and isinstance(n.target, ast.Name) and any(
                isinstance(x, ast.Assign) and isinstance(x.targets[0], ast.Subscript) and isinstance(x.targets[0].value, ast.Name)
                and x.targets[0].value.id == inv['screw_list'] for x in n.body):
            roles[n.target.id] = 'i'
    if len(set(roles.values())) != len(roles):
        raise AnalysisError('loadArmFromURDF: one local plays two roles (%s)' % roles)
    clash = {v for k, v in roles.items() if k != v} & ({n.id for n in own if isinstance(n, ast.Name)} - set(roles))
    if clash:
        raise AnalysisError('loadArmFromURDF: role names already used for something else: %s' % sorted(clash))
    for n in own:
        if isinstance(n, ast.Name) and n.id in roles:
            n.id = roles[n.id]
    return roles


def positional_calls(model, load):
    """The rules read the loader's calls of Arm(...) and of the Arm setters by POSITION.  Calls written with keyword arguments are put into that
    form first (in this process' copy of the syntax tree only): each keyword moves to the position its parameter has in the callee's
    signature, parameters skipped in between get the callee's default expression."""
    import copy
    arm_cls = model.cls(ARM, 'Arm')
    if arm_cls is None:
        return
    for c in ast.walk(load.node):
        if not (isinstance(c, ast.Call) and c.keywords and all(k.arg for k in c.keywords)):
            continue
        if isinstance(c.func, ast.Name) and c.func.id == 'Arm':
            callee = arm_cls.methods.get('__init__')
        elif isinstance(c.func, ast.Attribute) and c.func.attr in ('setJointProperties', 'setNames', 'setOrigins', 'setMassProperties', 'setVisColProperties'):
            callee = arm_cls.methods.get(c.func.attr)
        else:
            continue
        if callee is None:
            continue
        params = callee.params[1:]
        dflt = dict(zip(params[len(params) - len(callee.node.args.defaults):], callee.node.args.defaults))
        kw = {k.arg: k.value for k in c.keywords}
        if not set(kw) <= set(params):
            continue
        args = list(c.args)
        last = max(params.index(k) for k in kw)
        ok = True
        for p_ in params[len(args):last + 1]:
            if p_ in kw:
                args.append(kw[p_])
            elif p_ in dflt:
                args.append(copy.deepcopy(dflt[p_]))
            else:
                ok = False
                break
        if ok:
            c.args, c.keywords = args, []
            for a_ in args:
                load.module.parents[a_] = c


def check(model, rep):
    rep.extra['explanation'] = (
        'Definite-assignment (must) analysis of the joint parser over all paths including zero loop iterations, guard dominance '
        'for optional attributes, ordered pattern of the origin composition, path counting of the per-joint bookkeeping in the '
        'chain walk, and structural check of the screw construction and of the Arm(...) call.')
    load = model.func(ARM, 'loadArmFromURDF')
    loader_cls = model.cls(ARM, 'URDFLoader')
    positional_calls(model, load)
    roles = canonicalise_roles(load)
    rep.note('locals of loadArmFromURDF by role: %s' % {v: k for k, v in sorted(roles.items())})
    il_load = Inliner(load)
    KEEP = tuple(roles.values())
    r050(model, rep, rule='R13.0')
    rep.rules['R13.0'] = 'np.<attr> used by the arm module exist in the installed NumPy (an Arm can be constructed)'

    # ---------------------------------------------------------------- R13.1
    rep.rule('R13.1', 'joint axis / origin definitely assigned non-None on every path of the joint parser; missing xyz/rpy -> zeros; '
                      'link-side origin use under the mass guard')
    jp = nested(model, load, 'completeJointParse')
    elem = jp.params[0]
    init = loader_cls.methods.get('__init__')
    none_defaults = set()
    for n in walk_own(init.node):
        if isinstance(n, ast.Assign) and isinstance(n.targets[0], ast.Attribute) and isinstance(n.value, ast.Constant) and n.value.value is None:
            none_defaults.add(n.targets[0].attr)

    class MustAssign(EventDomain):
        def on_store(s, target, value, stmt, state):
            got, consts = state
            if isinstance(target, ast.Attribute) and isinstance(target.value, ast.Name) and target.value.id == elem:
                if not (isinstance(value, ast.Constant) and value.value is None):
                    got = got | {target.attr}
            return ((got, consts),)
    exits = Flow(MustAssign()).run(jp.body(), {(frozenset(), frozenset())})
    normal = [e for e in exits if e.kind in ('fall', 'return')]
    for fld, what in (('axis', 'the URDF default axis (1 0 0)'), ('xyz_origin', 'the identity origin')):
        ok = fld not in none_defaults or all(fld in e.state[0] for e in normal)
        rep.ob('R13.1', jp, 'joint.%s assigned on every path' % fld, ok,
               'a joint without the optional <%s> child leaves .%s = None (set in URDFLoader.__init__); the chain walk then fails with '
               'TypeError instead of using %s' % ('axis' if fld == 'axis' else 'origin', fld, what))
    eo = nested(model, load, 'extractOrigin')
    found = {}

    class G(FactDomain):
        def user_call(s, call, facts, user):
            f = call.func
            if isinstance(f, ast.Attribute) and f.attr == 'split' and isinstance(f.value, ast.Name):
                nm = f.value.id
                ok = FactDomain.has(facts, False, '%s is None' % nm)
                found[src(call)] = (found.get(src(call), (True,))[0] and ok, call.lineno)
            return user
    from ..engine import peval as _pe0
    eo_flat = _pe0.flatten({}, eo.node, depth=0)           # conditional expressions with calls lowered to if / else
    eo_body = [s_ for s_ in eo_flat.body if not (isinstance(s_, ast.Expr) and isinstance(s_.value, ast.Constant))]
    Flow(G()).run(eo_body, {((frozenset(), None), frozenset())})
    for k, (ok, line) in sorted(found.items()):
        rep.ob('R13.1', eo, k, ok, 'attribute may be absent (None) when .split() is called', line=line)
    rep.floor('R13.1', 'optional origin attributes', len(found), 2)
    # both defaults are three zeros
    zeros = [n for n in walk_own(eo_flat) if isinstance(n, ast.Assign) and isinstance(n.value, ast.List)]
    rep.ob('R13.1', eo, 'missing xyz / rpy default to [0, 0, 0]', len(zeros) == 2 and all(src(z.value).replace(' ', '') == '[0,0,0]' for z in zeros),
           'defaults are %s' % [src(z.value) for z in zeros])
    # link-side use under mass guard
    uses = [n for n in walk_own(load.node) if isinstance(n, ast.Attribute) and n.attr == 'xyz_origin' and isinstance(n.ctx, ast.Load)]
    for u in uses:
        p = load.module.parents.get(u)
        guards = []
        in_link_branch = False
        while p is not None and p is not load.node:
            if isinstance(p, ast.If):
                guards.append(src(p.test))
            p = load.module.parents.get(p)
        txt = ' && '.join(guards)
        if "type == 'link'" in txt and 'sub_type' not in txt.split("type == 'link'")[0][-1:]:
            pass
        is_link_side = any(g.replace(' ', '') == "temp_element.type=='link'" for g in guards)
        if is_link_side:
            ok = any('mass is not None' in g for g in guards)
            rep.ob('R13.1', load, src(load.module.parents.get(u))[:80] if load.module.parents.get(u) is not None else 'xyz_origin',
                   ok, 'a link\'s inertial origin is used without the co-assigned `mass is not None` guard', line=u.lineno)

    # ---------------------------------------------------------------- R13.2
    rep.rule('R13.2', 'joint origin = T(xyz) @ Rz(rpy[2]) @ Ry(rpy[1]) @ Rx(rpy[0])')
    # the <origin> / <limit> branches of the child loop, by structure: `for CH in <parent>: if CH.tag == '<tag>': ...`
    par_p = jp.params[1]
    # the parser with the loader's other closure-level helpers inlined (all but extractOrigin, which the rule speaks about): the
    # composition of the origin may live in a helper of its own
    from ..engine import peval as _pe
    local_helpers = {'local:' + f_.name: f_.node for f_ in model.all_funcs if f_.outer is load and f_.name != jp.name}
    jp_flat = _pe.flatten(local_helpers, jp.node, depth=2, stop=('extractOrigin',), impure=True)
    jp_body = [s_ for s_ in jp_flat.body if not (isinstance(s_, ast.Expr) and isinstance(s_.value, ast.Constant))]
    chl = [n for n in jp_body if isinstance(n, ast.For) and isinstance(n.target, ast.Name) and src(n.iter) == par_p]
    if len(chl) != 1:
        raise AnalysisError('completeJointParse: loop over the joint\'s XML children not recognised')
    ch = chl[0].target.id

    def branch(tag):
        # `if CH.tag == tag:` at the top of the loop body or anywhere in an if / elif chain there
        todo = list(chl[0].body)
        while todo:
            n = todo.pop(0)
            if isinstance(n, ast.If):
                if norm_text(n.test) in ("%s.tag=='%s'" % (ch, tag), "'%s'==%s.tag" % (tag, ch)):
                    return n
                todo = list(n.orelse) + todo
        return None
    ob = branch('origin')
    if ob is None:
        raise AnalysisError('completeJointParse: <origin> branch not recognised')
    env, stores = block_env(ob.body)
    stored = [v for (t, v, st) in stores if norm_text(t) == '%s.xyz_origin' % elem]
    XYZ = "np.array(extractOrigin(CH)[0], dtype=float)"
    RPY = "np.array(extractOrigin(CH)[1], dtype=float)"
    want = ("tm([{x}[0], {x}[1], {x}[2], 0, 0, 0]) @ tm([0, 0, 0, 0, 0, {r}[2]]) @ tm([0, 0, 0, 0, {r}[1], 0]) @ tm([0, 0, 0, {r}[0], 0, 0])"
            .format(x=XYZ, r=RPY))
    got = canon_names(stored[-1], {ch: 'CH'}) if stored and stored[-1] is not None else None
    rep.ob('R13.2', jp, 'translate(xyz) then yaw (z), pitch (y), roll (x); composed origin stored on the joint', got is not None and same_tree(got, want),
           'the origin stored for a joint is %s; expected T(xyz) @ Rz(rpy[2]) @ Ry(rpy[1]) @ Rx(rpy[0]) with xyz / rpy the first / second result of extractOrigin'
           % (norm_text(got)[:400] if got is not None else 'not stored in the <origin> branch'), line=ob.lineno)
    eo_ret = [n for n in walk_own(eo.node) if isinstance(n, ast.Return)]
    ok = False
    why = 'extractOrigin does not return (xyz, rpy)'
    if len(eo_ret) == 1 and isinstance(eo_ret[0].value, ast.Tuple) and len(eo_ret[0].value.elts) == 2 and all(isinstance(x, ast.Name) for x in eo_ret[0].value.elts):
        # each returned list is read from the attribute of its own name on every path that does not take the zero default
        ok = True
        for nm, attr in zip([x.id for x in eo_ret[0].value.elts], ('xyz', 'rpy')):
            defs_ = [n.value for n in walk_own(eo.node) if isinstance(n, ast.Assign) and src(n.targets[0]) == nm]
            reads = {c.args[0].value for d in defs_ for c in ast.walk(d) if isinstance(c, ast.Call) and isinstance(c.func, ast.Attribute) and c.func.attr == 'get'
                     and c.args and isinstance(c.args[0], ast.Constant)}
            il_eo = Inliner(eo)
            for d in defs_:
                for nn in ast.walk(il_eo.expand(d)):
                    if isinstance(nn, ast.Call) and isinstance(nn.func, ast.Attribute) and nn.func.attr == 'get' and nn.args and isinstance(nn.args[0], ast.Constant):
                        reads.add(nn.args[0].value)
            if reads != {attr}:
                ok = False
                why = 'result %d of extractOrigin (%s) is read from the attribute(s) %s, expected %r' % (0 if attr == 'xyz' else 1, nm, sorted(reads), attr)
    rep.ob('R13.2', jp, 'xyz / rpy attributes keep their roles from parsing to composition', ok, why)
    lb = branch('limit')
    lim = {}
    if lb is not None:
        env_l, stores_l = block_env(lb.body)
        lim = {norm_text(t): norm_text(canon_names(v, {ch: 'CH'})) for (t, v, st) in stores_l if 'joint_limits' in norm_text(t) and v is not None}
    rep.ob('R13.2', jp, 'limits: lower -> [0], upper -> [1]', lim == {'%s.joint_limits[0]' % elem: "CH.get('lower')", '%s.joint_limits[1]' % elem: "CH.get('upper')"},
           'joint limit parsing is %s' % lim)

    # ---------------------------------------------------------------- R13.3
    rep.rule('R13.3', 'chain walk: a moving joint makes exactly one append to names/mins/maxs, one write of column arrind in both tables, '
                      'then arrind += 1; links and fixed joints make none')
    walks = [n for n in load.body() if isinstance(n, ast.While) and cmp_parts(n.test, left='temp_element.num_children') == ('temp_element.num_children', '>', '0')]
    if len(walks) != 2:
        raise AnalysisError('loadArmFromURDF: DOF count loop / chain walk not recognised (%d while loops)' % len(walks))
    count_loop, walk = walks
    LISTS = ('joint_names', 'joint_mins', 'joint_maxs')
    TABLES = ('joint_axes', 'joint_homes')

    class Book(EventDomain):
        def on_call(s, call, state):
            (apps, cols, adv, kind), consts = state
            f = call.func
            if isinstance(f, ast.Attribute) and f.attr == 'append' and isinstance(f.value, ast.Name) and f.value.id in LISTS:
                apps = tuple(sorted(dict(apps, **{f.value.id: min(dict(apps).get(f.value.id, 0) + 1, 2)}).items()))
            return (((apps, cols, adv, kind), consts),)

        def on_store(s, target, value, stmt, state):
            (apps, cols, adv, kind), consts = state
            if isinstance(target, ast.Subscript) and isinstance(target.value, ast.Name) and target.value.id in TABLES:
                col_ok = src(target.slice).replace(' ', '').strip('()') == '0:3,arrind'
                key = target.value.id if col_ok else target.value.id + '!'
                cols = tuple(sorted(dict(cols, **{key: min(dict(cols).get(key, 0) + 1, 2)}).items()))
            if isinstance(target, ast.Name) and target.id == 'arrind':
                good = isinstance(stmt, ast.AugAssign) and isinstance(stmt.op, ast.Add) and src(stmt.value) == '1'
                adv = min(adv + 1, 2) if good else 9
                if dict(cols) and False:
                    pass
            return (((apps, cols, adv, kind), consts),)

        def assume(s, test, truth, state):
            st = super().assume(test, truth, state)
            if st is None:
                return None
            (apps, cols, adv, kind), consts = st
            t = src(test).replace(' ', '')
            if t in ("temp_element.type=='link'", "temp_element.sub_type=='fixed'") and truth and kind is None:
                kind = 'static'
            return ((apps, cols, adv, kind), consts)
    ends, brks, exits = Flow(Book()).run_loop_body(walk.body, {(((), (), 0, None), frozenset())})
    moving = [e for e in ends if e[0][3] is None]
    static = [e for e in ends if e[0][3] == 'static']
    want_apps = tuple(sorted((l, 1) for l in LISTS))
    want_cols = tuple(sorted((t, 1) for t in TABLES))
    okm = bool(moving) and all(e[0][0] == want_apps and e[0][1] == want_cols and e[0][2] == 1 for e in moving)
    rep.ob('R13.3', load, 'moving joint: one append per list, one column write per table, arrind += 1', okm,
           'per-iteration bookkeeping on the moving-joint paths: %s' % sorted({(e[0][0], e[0][1], e[0][2]) for e in moving}), line=walk.lineno)
    oks = bool(static) and all(e[0][0] == () and e[0][1] == () and e[0][2] == 0 for e in static)
    rep.ob('R13.3', load, 'link / fixed joint: no joint bookkeeping', oks,
           'a link or fixed joint touches the per-joint tables: %s' % sorted({(e[0][0], e[0][1], e[0][2]) for e in static}), line=walk.lineno)
    rep.ob('R13.3', load, 'walk never leaves the chain early', not brks and not exits, 'break/return inside the chain walk', line=walk.lineno)
    # fields appended come from the element itself
    amap = {}
    for c in ast.walk(walk):
        if isinstance(c, ast.Call) and isinstance(c.func, ast.Attribute) and c.func.attr == 'append' and isinstance(c.func.value, ast.Name) and c.func.value.id in LISTS:
            amap[c.func.value.id] = src(c.args[0]).replace(' ', '')
    rep.ob('R13.3', load, 'names / limits taken from the joint\'s own fields', amap == {'joint_names': 'temp_element.name', 'joint_mins': 'temp_element.joint_limits[0]', 'joint_maxs': 'temp_element.joint_limits[1]'},
           'appended values are %s' % amap, line=walk.lineno)
    # advance of the walk pointer once per path
    class Adv(EventDomain):
        def on_store(s, target, value, stmt, state):
            n_, consts = state
            if isinstance(target, ast.Name) and target.id == 'temp_element':
                good = value is not None and src(value) == 'mostChildren(temp_element)'
                return ((min(n_ + 1, 2) if good else 9, consts),)
            return (state,)
    ends2, _b, _e = Flow(Adv()).run_loop_body(walk.body, {(0, frozenset())})
    rep.ob('R13.3', load, 'walk advances to the next element exactly once per iteration', {e[0] for e in ends2} == {1},
           'advance counts per iteration: %s' % sorted({e[0] for e in ends2}), line=walk.lineno)
    cnt_ifs = [n for n in count_loop.body if isinstance(n, ast.If)]
    cnt_aug = [x for x in (cnt_ifs[0].body if cnt_ifs else []) if isinstance(x, ast.AugAssign)]
    ok = len(cnt_ifs) == 1 and src(cnt_ifs[0].test).replace(' ', '') == "temp_element.type=='joint'andtemp_element.sub_type!='fixed'" and \
        len(cnt_aug) == 1 and isinstance(cnt_aug[0].op, ast.Add) \
        and isinstance(cnt_aug[0].target, ast.Name) and src(cnt_aug[0].value) == '1'
    if ok:
        sized = {t_: [norm_text(d) for d in il_load.defs(t_)] for t_ in ('joint_axes', 'joint_homes')}
        rep.ob('R13.3', load, 'per-joint tables allocated with one column per counted joint',
               all(d == 'np.zeros((3,%s))' % cnt_aug[0].target.id for ds in sized.values() for d in ds),
               'the per-joint tables are not 3 x <number of moving joints> zero tables filled by the walk: %s' % sized)
    first_if = [n for n in walk.body if isinstance(n, ast.If)]
    ok2 = bool(first_if) and src(first_if[0].test).replace(' ', '') == "temp_element.type=='link'ortemp_element.sub_type=='fixed'" and \
        isinstance(first_if[0].body[-1], ast.Continue)
    rep.ob('R13.3', load, 'DOF pre-count and chain walk use complementary predicates', ok and ok2,
           'count: %s ; walk skip: %s' % (src(cnt_ifs[0].test) if cnt_ifs else '?', src(first_if[0].test) if first_if else '?'))
    # pose algebra of the walk: symbolic products over one iteration (every path), see PoseDomain
    pose = pose_walk(load, walk, rep)

    # ---------------------------------------------------------------- R13.4
    rep.rule('R13.4', 'screw = [axis ; cross(point, axis)], axis = R(accumulated pose) axis_file, point = translation; Arm(identity, screws, last pose, ...)')
    cols = {}
    for n in ast.walk(walk):
        if isinstance(n, ast.Assign) and isinstance(n.targets[0], ast.Subscript) and isinstance(n.targets[0].value, ast.Name) and n.targets[0].value.id in TABLES:
            cols[n.targets[0].value.id] = src(n.value).replace(' ', '')
    rep.ob('R13.4', load, 'axis_i = determineAxis(accumulated pose, joint.axis); point_i = translation of the accumulated pose',
           pose['tables_ok'], pose['tables_msg'])
    da = nested(model, load, 'determineAxis')
    p0, p1 = da.params
    il_da = Inliner(da)
    dr = il_da.returns()
    want = ['(tm([{p}[3], {p}[4], {p}[5]]) @ tm([{a}[0], {a}[1], {a}[2], 0, 0, 0]))[0:3].flatten()'.format(p=p0, a=p1),
            '(tm([{p}[3], {p}[4], {p}[5]]) @ tm([{a}[0], {a}[1], {a}[2], 0, 0, 0]))[0:3]'.format(p=p0, a=p1)]
    ok = len(dr) == 1 and il_da.same(dr[0].value, want)
    rep.ob('R13.4', da, 'R(pose) applied to the file axis', ok, 'determineAxis returns %s' % (il_da.text(dr[0].value) if dr else '?'))
    # the loop that fills the screw table: per column i, rows 0:3 = axis_i and rows 3:6 = point_i x axis_i (one hstack store or two
    # half-column stores; temporaries resolved)
    halves, got_txt = {}, '?'
    for lp_ in [n for n in load.body() if isinstance(n, ast.For) and isinstance(n.target, ast.Name)]:
        env_s, stores_s = block_env(lp_.body)
        st_ = [(norm_text(canon_names(t, {lp_.target.id: 'I'})), canon_names(v, {lp_.target.id: 'I'})) for (t, v, s_) in stores_s
               if isinstance(t, ast.Subscript) and norm_text(t.value) == 'screw_list' and v is not None]
        if not st_:
            continue
        got_txt = '; '.join('%s = %s' % (t, norm_text(v)[:90]) for t, v in st_)
        for t, v in st_:
            rows = t[len('screw_list['):-1]
            if rows in ('0:6,I', ':,I') and isinstance(v, ast.Call) and norm_text(v.func) in ('np.hstack', 'np.concatenate') and v.args \
                    and isinstance(v.args[0], (ast.Tuple, ast.List)) and len(v.args[0].elts) == 2:
                halves['0:3'], halves['3:6'] = norm_text(v.args[0].elts[0]), norm_text(v.args[0].elts[1])
            elif rows in ('0:3,I', ':3,I'):
                halves['0:3'] = norm_text(v)
            elif rows in ('3:6,I', '3:,I'):
                halves['3:6'] = norm_text(v)
            else:
                halves['?'] = rows
    ok = halves == {'0:3': 'joint_axes[0:3,I]', '3:6': 'np.cross(joint_homes[0:3,I],joint_axes[0:3,I])'}
    rep.ob('R13.4', load, 'screw_i = [axis_i ; point_i x axis_i]', ok, 'screw construction is %s' % got_txt)
    arm_call = [c for c in ast.walk(load.node) if isinstance(c, ast.Call) and src(c.func) == 'Arm']
    ok = len(arm_call) == 1 and len(arm_call[0].args) == 5 and [il_load.text(x, canon=False, keep=KEEP) for x in arm_call[0].args[:2] + arm_call[0].args[3:]] == ['tm()', 'screw_list', 'joint_homes', 'joint_axes'] \
        and src(il_load.expand(arm_call[0].args[2])).replace(' ', '') == pose['run']
    rep.ob('R13.4', load, 'Arm(tm(), screws, last accumulated pose, points, axes)', ok, 'Arm is built with %s' % ([src(x) for x in arm_call[0].args] if arm_call else '?'))
    sj = [c for c in ast.walk(load.node) if isinstance(c, ast.Call) and isinstance(c.func, ast.Attribute) and c.func.attr == 'setJointProperties']
    ok = len(sj) == 1 and [il_load.text(x, canon=False, keep=KEEP) for x in sj[0].args[:2]] == ['np.array(joint_mins)', 'np.array(joint_maxs)']
    rep.ob('R13.4', load, 'limits passed as (mins, maxs)', ok, 'setJointProperties receives %s' % ([src(x) for x in sj[0].args[:2]] if sj else '?'))
    sn = [c for c in ast.walk(load.node) if isinstance(c, ast.Call) and isinstance(c.func, ast.Attribute) and c.func.attr == 'setNames']
    ok = len(sn) == 1 and len(sn[0].args) == 3 and src(sn[0].args[2]) == 'joint_names'
    rep.ob('R13.4', load, 'joint names passed in file order', ok, 'setNames receives %s' % ([src(x) for x in sn[0].args] if sn else '?'))

    # ---------------------------------------------------------------- R13.5
    # "forward kinematics equals the file's semantics for all joint values inside the limits" is read through Arm.FK: the loaded screws and
    # home pose are evaluated at the joint vector given (clamped to the limits only) - no other folding of the joint values
    rep.rule('R13.5', 'Arm.FK evaluates the loaded chain at the joint vector it is given: FKinSpace(home, screws, theta) with theta itself or its clamp to the '
                      'limits (closure of the loader clauses: joint values inside the file\'s limits are never folded or wrapped before the product of exponentials)')
    from .c05 import fk_core
    arm_cls = model.cls(ARM, 'Arm')
    fk_m = arm_cls.methods.get('FK')
    if fk_m is None:
        raise AnalysisError('anchor vanished: Arm.FK')
    fk_core(rep, 'R13.5', fk_m)
    # ---------------------------------------------------------------- R13.6
    # the loader accumulates joint poses as tm objects built from matrices and re-exponentiates their axis-angle part to rotate the joint
    # axes into space: exp / log of rotations (and the FK kernel) must be the pinned reference's
    from .c02 import closure_obligations
    tmc = model.cls('basic_robotics.general.faser_transform', 'tm')
    shared = closure_obligations(model, rep, 'R13.6', [load, fk_m] + list(tmc.methods.values()),
                                 'the URDF loader (joint poses kept as tm objects: exp / log of rotations, axis rotation) and Arm.FK')
    rep.floor('R13.6', 'shared primitives under the loader', len(shared), 6)
    # ---------------------------------------------------------------- R13.7
    # the limits the loader collected reach the arm as written: setJointProperties stores what it is given (value-preserving wrappers only)
    rep.rule('R13.7', 'Arm.setJointProperties stores the joint limits it is given unchanged (the argument itself, or a copy / array / dtype conversion of it): '
                      'the loaded arm reports - and FK clamps against - the limits written in the file')
    sj = arm_cls.methods.get('setJointProperties')
    if sj is None:
        raise AnalysisError('anchor vanished: Arm.setJointProperties')

    def _plain(e_):
        # strip wrappers that keep every value: np.array / asarray / copy / astype(float) / reshape / flatten / list
        while True:
            if isinstance(e_, ast.Call) and isinstance(e_.func, ast.Attribute) and e_.func.attr in ('copy', 'astype', 'reshape', 'flatten', 'ravel') \
                    and not (isinstance(e_.func.value, ast.Name) and e_.func.value.id in ('np', 'numpy', 'copy')):
                e_ = e_.func.value
            elif isinstance(e_, ast.Call) and norm_text(e_.func) in ('np.array', 'numpy.array', 'np.asarray', 'numpy.asarray', 'np.copy', 'numpy.copy', 'list', 'copy.copy',
                                                                      'copy.deepcopy', 'np.ascontiguousarray', 'np.atleast_1d') and e_.args:
                e_ = e_.args[0]
            else:
                return e_
    n137 = 0
    from .common_ops import flat_method as _fm137
    sj_params = sj.params
    sj = _fm137(arm_cls, 'setJointProperties')           # a private "store what is given" helper read in place (loops over literal pairs unrolled)
    il137 = Inliner(sj)
    for fld, want in (('joint_mins', None), ('joint_maxs', None)):
        stores137 = [(a_, a_.value) for a_ in walk_own(sj.node) if isinstance(a_, ast.Assign) and any(norm_text(t_) == 'self.' + fld for t_ in a_.targets)]
        # setattr(self, '<field>', value) is the same store
        stores137 += [(c_, c_.args[2]) for c_ in walk_own(sj.node) if isinstance(c_, ast.Call) and norm_text(c_.func) == 'setattr' and len(c_.args) == 3
                      and norm_text(c_.args[0]) == 'self' and isinstance(c_.args[1], ast.Constant) and c_.args[1].value == fld]
        for st_, val_ in stores137:
            n137 += 1
            core = _plain(il137.expand(val_))
            ok_ = isinstance(core, ast.Name) and core.id in sj_params and fld.split('_')[1][:3] in core.id
            rep.ob('R13.7', sj, 'self.%s = the limits given' % fld, ok_,
                   'setJointProperties stores %s as self.%s: the limits of the loaded arm are no longer the ones written in the URDF (a joint declared with a range '
                   'beyond that is reported - and clamped by FK - at other values, so in-limit joint values give the pose of another configuration)'
                   % (norm_text(val_)[:70], fld), line=st_.lineno)
    rep.floor('R13.7', 'limit stores of setJointProperties', n137, 2)
    # ---------------------------------------------------------------- R13.8
    # From the file's origin matrices to the home matrix FK multiplies with, poses are composed as MATRICES (A @ B, np.dot, tm(matrix)).  The
    # frame helpers localToGlobal / globalToLocal compose through the axis-angle vectors (tm(LocalToGlobal(a.gTAA(), b.gTAA()))): the result is
    # rebuilt from exp(log(R)), which is exact to ~1e-16 for ordinary rotations but only to ~1e-5 for a net rotation within 1e-5 rad of a half
    # turn - exactly what a flange written as rpy="3.14159 0 0" produces.  The property's tolerance is 1e-6.
    rep.rule('R13.8', 'load path: the poses that become the arm\'s home tool matrix are composed as matrices - never through the axis-angle frame helpers '
                      '(localToGlobal / globalToLocal), whose exp(log(.)) rebuild loses the exact matrix for rotations near a half turn')
    LOSSY = ('localToGlobal', 'globalToLocal', 'LocalToGlobal', 'GlobalToLocal')

    def lossy_in(e_):
        out = []
        for c_ in ast.walk(e_):
            if isinstance(c_, ast.Call) and norm_text(c_.func).split('.')[-1] in LOSSY:
                out.append(c_)
            # tm(x.gTAA()) / tm(x.TAA): the same rebuild spelled by hand
            if isinstance(c_, ast.Call) and norm_text(c_.func) == 'tm' and len(c_.args) == 1 and any(
                    (isinstance(x_, ast.Attribute) and x_.attr == 'TAA') or (isinstance(x_, ast.Call) and isinstance(x_.func, ast.Attribute) and x_.func.attr in ('gTAA', 'getTAA'))
                    for x_ in ast.walk(c_.args[0])) and any(isinstance(x_, ast.BinOp) for x_ in ast.walk(c_.args[0])):
                out.append(c_)
        return out
    n138 = 0
    ini138 = arm_cls.methods.get('initialize')
    if ini138 is None:
        raise AnalysisError('anchor vanished: Arm.initialize')
    il138 = Inliner(ini138)
    for a_ in walk_own(ini138.node):
        if isinstance(a_, ast.Assign) and any(norm_text(t_) == 'self._end_effector_home' for t_ in a_.targets):
            n138 += 1
            val_ = il138.expand(a_.value)
            bad_ = lossy_in(val_)
            rep.ob('R13.8', ini138, 'self._end_effector_home = %s' % norm_text(a_.value)[:70], not bad_,
                   'the home tool pose is composed through %s: it is rebuilt from its axis-angle vector (exp(log(R))), so for a tool frame whose net home rotation '
                   'is a truncated half turn (rpy="3.14159 0 0" on a fixed flange joint) the loaded arm\'s FK orientation is off by about 1e-5 for every joint vector'
                   % (norm_text(bad_[0].func) if bad_ else ''), line=a_.lineno)
    rep.floor('R13.8', 'stores of the home tool pose in Arm.initialize', n138, 1)
    n_lf = 0
    for fi_ in [load] + list(loader_cls.methods.values()) + [arm_cls.methods[m_] for m_ in ('__init__',) if m_ in arm_cls.methods]:
        n_lf += 1
        bad_ = lossy_in(fi_.node)
        rep.ob('R13.8', fi_, '%s composes poses as matrices' % fi_.qualname, not bad_,
               '%s composes a pose through %s (line %s): the accumulated joint / tool pose is rebuilt from its axis-angle vector and is only accurate to ~1e-5 near a half turn'
               % (fi_.qualname, norm_text(bad_[0].func) if bad_ else '', bad_[0].lineno if bad_ else ''), line=bad_[0].lineno if bad_ else None)
    rep.count('R13.8 loader functions scanned', n_lf)
    # ---------------------------------------------------------------- R13.9
    # Arm.FK wraps the joint vector through fsr.angleMod in place before the product of exponentials: joint values beyond one turn (limits
    # such as +-6.98 rad are written in URDF files) must come out congruent modulo 2*pi
    rep.rule('R13.9', 'the angle wrap Arm.FK applies to the joint vector (fsr.angleMod and its siblings) replaces an angle by its remainder modulo 2*pi only')
    from .c18 import wrap_store_rule as _wsr13
    _wsr13(model, rep, 'R13.9')

