"""C08 - rigid-body dynamics are physically consistent.

Decided statically:
  R08.1 the nine Modern-Robotics dynamics functions and the primitives they call have the normal form of
        the pinned reference (E6), and the derived quantities select the documented zero patterns of the
        Newton-Euler recursion: MassMatrix column i = ID(q, 0, e_i, 0, 0); VelQuadraticForces =
        ID(q, qd, 0, 0, 0); GravityForces = ID(q, 0, 0, g, 0); EndEffectorForces = ID(q, 0, 0, 0, F);
        ForwardDynamics = inv(M(q)) (tau - c - g - J^T F).
  R08.2 Arm.massMatrix is literally sum_i J_i^T G_i J_i over range(len(theta)) with ONE index i for
        jacobianLink(i, theta) and the spatial inertia i - symmetric positive semi-definite by construction.
  R08.3 arm-level zero patterns (coriolisGravity, forwardDynamicsE) and call agreement with the kernels:
        argument order, payload-shape contract (a Wrench object - payload (6,1) - may not be bound to a
        kernel's 1-D Ftip parameter), unpacking arity equals the kernel's return arity.
Not decided: symmetry/definiteness of MassMatrix values, FD o ID = id, energy/passivity identities,
agreement of Arm.inverseDynamics / inverseDynamicsC with the recursion (numerical identities).
"""
import ast

from ..engine.model import AnalysisError, src, walk_own
from ..engine import tv
from ..engine.inline import Inliner
from ..engine.normal import is_num, num, show
from ..engine.mrspec import C08_DYNAMICS
from . import c02
from .armstate import ARM
from .c06 import assigns_of, resolve, returns_of

PORT = tv.PORT_MOD
HELPERS = ['Adjoint', 'TransInv', 'TransToRp', 'MatrixExp6', 'MatrixExp3', 'VecTose3', 'VecToso3', 'ad', 'so3ToVec', 'AxisAng3', 'Normalize', 'NearZero']
KERNEL_1D_PARAMS = {'InverseDynamics': {'Ftip'}, 'ForwardDynamics': {'Ftip'}, 'EndEffectorForces': {'Ftip'}}


LEN0 = ('call', 'len', (('p', 0),), ())
LEN0S = (LEN0, ('call', 'len', (('ext', 'n'),), ()))      # len(thetalist): by name, or by its contract extent (N42)


def zeros_n(t):
    """the array  j -> 0  of length len(arg0)  ([0] * n, or a comprehension)"""
    return isinstance(t, tuple) and t[0] == 'lam' and t[2] in LEN0S and is_num(t[3], 0)


def unit_n(t, iv):
    """the array  j -> (1 if j == i else 0)  of length len(arg0)"""
    if not (isinstance(t, tuple) and t[0] == 'lam' and t[2] in LEN0S):
        return False
    b = t[3]
    if not (b[0] == 'ite' and b[1][0] == 'cmp' and {b[1][2], b[1][3]} == {('bv', t[1]), iv}):
        return False
    if b[1][1] == '==':
        return is_num(b[2], 1) and is_num(b[3], 0)
    return b[1][1] == '!=' and is_num(b[2], 0) and is_num(b[3], 1)


def zeros_k(t, k):
    return isinstance(t, tuple) and t[0] == 'block' and t[1] == (k,) and all(is_num(c[4], 0) for c in t[2])


def check(model, rep):
    rep.extra['explanation'] = (
        'Normal-form equality of the dynamics functions with modern_robotics 1.1.1, structural zero-pattern table of the '
        'quantities derived from the Newton-Euler recursion, congruence-sum shape of Arm.massMatrix, and arity / payload / '
        'argument-order agreement of the arm-level wrappers with the kernels.')
    rep.trusted_base += ['modern_robotics 1.1.1 Newton-Euler recursion as the physical reference']
    pm = model.module(PORT)

    def nf(name):
        return tv.port_nf(model, name)[0][2]

    def F(name):
        return model.func(PORT, name)

    # ---------------------------------------------------------------- R08.1
    c02.r021_r022(model, rep, names=set(C08_DYNAMICS) | set(HELPERS), rule_api='R08.1a', rule_eq='R08.1')
    rep.rules.pop('R08.1a', None)
    rep.rules['R08.1'] = 'dynamics functions (and the primitives they call) equal the reference; zero-pattern table of the derived quantities'
    mm = nf('MassMatrix')
    ok = False
    msg = 'MassMatrix is not a loop storing column i = InverseDynamics(q, 0, e_i, 0, 0, Mlist, Glist, Slist)'
    if mm[0] == 'lout':
        loop = mm[1]
        init, body = loop[3][mm[2]]
        if body[0] == 'store' and body[2] == (('sl', None, None, None), ('iv', loop[1])) and body[3][:2] == ('call', 'InverseDynamics'):
            a = body[3][2]
            unit = a[2]
            ok_unit = unit_n(unit, ('iv', loop[1]))
            ok = a[0] == ('p', 0) and zeros_n(a[1]) and ok_unit and zeros_k(a[3], 3) and zeros_k(a[4], 6) and a[5:] == (('p', 1), ('p', 2), ('p', 3))
            ok = ok and loop[2][0] == 'for' and loop[2][1][:2] == ('call', 'range') and loop[2][1][2] in tuple((x_,) for x_ in LEN0S)
    rep.ob('R08.1', F('MassMatrix'), 'column i = ID(q, 0, e_i, g=0, F=0)', ok, msg)
    table = (('VelQuadraticForces', lambda a: a[0] == ('p', 0) and a[1] == ('p', 1) and zeros_n(a[2]) and zeros_k(a[3], 3) and zeros_k(a[4], 6) and a[5:] == (('p', 2), ('p', 3), ('p', 4)),
              'ID(q, qd, 0, g=0, F=0)'),
             ('GravityForces', lambda a: a[0] == ('p', 0) and zeros_n(a[1]) and zeros_n(a[2]) and a[3] == ('p', 1) and zeros_k(a[4], 6) and a[5:] == (('p', 2), ('p', 3), ('p', 4)),
              'ID(q, 0, 0, g, F=0)'),
             ('EndEffectorForces', lambda a: a[0] == ('p', 0) and zeros_n(a[1]) and zeros_n(a[2]) and zeros_k(a[3], 3) and a[4] == ('p', 1) and a[5:] == (('p', 2), ('p', 3), ('p', 4)),
              'ID(q, 0, 0, g=0, F)'))
    for name, pred, desc in table:
        t = nf(name)
        ok = t[:2] == ('call', 'InverseDynamics') and pred(t[2])
        rep.ob('R08.1', F(name), desc, ok, '%s does not call the recursion with the zero pattern %s: %s' % (name, desc, show(t)[:120]))
    fd = nf('ForwardDynamics')
    M_ = ('call', 'MassMatrix', (('p', 0), ('p', 5), ('p', 6), ('p', 7)), ())
    c_ = ('call', 'VelQuadraticForces', (('p', 0), ('p', 1), ('p', 5), ('p', 6), ('p', 7)), ())
    g_ = ('call', 'GravityForces', (('p', 0), ('p', 3), ('p', 5), ('p', 6), ('p', 7)), ())
    e_ = ('call', 'EndEffectorForces', (('p', 0), ('p', 4), ('p', 5), ('p', 6), ('p', 7)), ())
    want = ('dot', ('call', 'numpy.linalg.inv', (M_,), ()), ('bin', '-', ('bin', '-', ('bin', '-', ('p', 2), c_), g_), e_))
    rep.ob('R08.1', F('ForwardDynamics'), 'inv(M(q)) @ (tau - c(q,qd) - g(q) - J^T F)', fd == want, 'ForwardDynamics is %s' % show(fd)[:160])

    # ---------------------------------------------------------------- R08.2
    rep.rule('R08.2', 'Arm.massMatrix = sum over i in range(len(theta)) of J_i^T @ G_i @ J_i with one index')
    arm = model.cls(ARM, 'Arm')
    # the rules below read calls between the dynamics methods by position and through locals: keyword arguments are moved to their positions and
    # private helpers that only hand values on (e.g. the Mlist / Glist / Slist tables) are read in place - in this process' copy of the class
    import copy as _copy8
    from .common_ops import positional_self_calls, flat_method as _fm8
    _arm_view = _copy8.copy(arm)
    _arm_view.methods = dict(arm.methods)
    for _nm in list(_arm_view.methods):
        if 'ynamics' in _nm or _nm in ('massMatrix', 'coriolisGravity', 'jacobianLink'):
            _f = positional_self_calls(arm, _sum_to_loop(arm.methods[_nm]))
            _arm_view.methods[_nm] = _f
    for _nm in list(_arm_view.methods):
        if ('ynamics' in _nm or _nm in ('massMatrix', 'coriolisGravity')) and any(
                isinstance(c_, ast.Call) and isinstance(c_.func, ast.Attribute) and c_.func.attr.startswith('_helper') for c_ in ast.walk(_arm_view.methods[_nm].node)):
            _arm_view.methods[_nm] = _fm8(_arm_view, _nm, stop=('_helper_ensure_theta_not_none',))
    arm = _arm_view
    mmf = arm.methods.get('massMatrix')
    if mmf is None:
        raise AnalysisError('anchor vanished: Arm.massMatrix')
    th = mmf.params[1]
    ok, msg = False, ''
    for g_txt in ('self._box_spatial_links[i, :, :]', 'self._box_spatial_links[i]'):
        ok, why = tv.fi_matches_spec(model, mmf, """
            def massMatrix(self, %s = None):
                %s = self._helper_ensure_theta_not_none(%s)
                acc = np.zeros((len(%s), len(%s)))
                for i in range(len(%s)):
                    acc = acc + self.jacobianLink(i, %s).T @ %s @ self.jacobianLink(i, %s)
                return acc
            """ % (th, th, th, th, th, th, th, g_txt, th))
        if ok:
            break
        msg = msg or ('not the congruence sum over every link with one index, from a zero matrix: ' + why)
    rep.ob('R08.2', mmf, 'M = sum_i J_i^T G_i J_i', ok, msg)
    # ... and the link Jacobians it sums are what the name says, computed from the arguments of the call (no value kept between calls)
    from .c06 import jacobian_link_rule
    jacobian_link_rule(model, rep, 'R08.2', arm)

    # ---------------------------------------------------------------- R08.3
    rep.rule('R08.3', 'arm-level zero patterns; kernel call sites: argument order, Wrench payload vs 1-D Ftip, unpack arity')
    SUB = (('np.linalg.', 'ling.'),)
    cg = arm.methods.get('coriolisGravity')
    if cg is not None:
        r = returns_of(cg)
        p = cg.params
        il = Inliner(cg)
        zq = ('0*%s' % p[1], 'np.zeros(len(%s))' % p[1], '%s*0' % p[1])
        zf = ('np.zeros((6,1))', 'np.zeros(6)')
        want = ['self.inverseDynamics(%s,%s,%s,%s,%s)[0]' % (p[1], p[2], a_, p[3], f_) for a_ in zq for f_ in zf]
        rep.ob('R08.3', cg, 'h = inverseDynamics(q, qd, 0, grav, F=0)[0]', bool(r) and all(x.value is not None and il.same(x.value, want) for x in r), 'coriolisGravity is %s' % (il.text(r[0].value) if r else '?'))
    fde = arm.methods.get('forwardDynamicsE')
    if fde is not None:
        p = fde.params
        il = Inliner(fde)
        r = returns_of(fde)
        elts = r[0].value.elts if len(r) == 1 and isinstance(r[0].value, ast.Tuple) else []
        zl = ('np.zeros(len(%s))' % p[1], '0*%s' % p[1])
        ee_want = ['self.inverseDynamics(%s,%s,%s,np.zeros(3),%s)[0]' % (p[1], z1, z2, p[5]) for z1 in zl for z2 in zl]
        M_t, h_t = 'self.massMatrix(%s)' % p[1], 'self.coriolisGravity(%s,%s,%s)' % (p[1], p[2], p[4])
        qdd = il.text(elts[0]) if elts else '?'
        ok_ee = len(elts) == 4 and il.same(elts[3], ee_want)
        rep.ob('R08.3', fde, 'ee = inverseDynamics(q, 0, 0, g=0, F)[0]', ok_ee, 'the tip-force term is %s' % (il.text(elts[3]) if len(elts) == 4 else '?'))
        # the gravity argument of h: the parameter (re-bound to the stored default when None), or that default resolution written as an expression
        g_forms = [p[4]] + [t_ % {'g': p[4]} for t_ in ('(self.grav if %(g)s is None else %(g)s)', '(%(g)s if %(g)s is not None else self.grav)')]
        h_forms = ['self.coriolisGravity(%s,%s,%s)' % (p[1], p[2], g_) for g_ in g_forms]
        want = ['%s(%s)@(%s-%s.flatten()-%s.flatten())' % (inv, M_t, p[3], h_, e_) for inv in ('ling.pinv', 'ling.inv') for e_ in ee_want for h_ in h_forms]
        ok = bool(elts) and il.same(elts[0], want, subst=SUB)
        rep.ob('R08.3', fde, 'qdd = pinv(M(q)) @ (tau - h - ee)', ok, 'forwardDynamicsE does not solve M qdd = tau - h - ee: %s' % qdd[:220])
    # kernel call sites from the arm
    n_sites = 0
    for name, fi in sorted(arm.methods.items()):
        for c in [x for x in walk_own(fi.node) if isinstance(x, ast.Call) and isinstance(x.func, ast.Attribute)
                  and x.func.attr in KERNEL_1D_PARAMS and isinstance(x.func.value, ast.Name) and x.func.value.id in ('fmr', 'mr')]:
            k = model.find_func(PORT, c.func.attr)
            if k is None:
                continue
            n_sites += 1
            # argument order by role (same-named parameters of the arm method / documented mapping)
            role = {'thetalist': 'theta', 'dthetalist': 'theta_dot', 'ddthetalist': 'theta_dot_dot', 'taulist': 'tau', 'g': 'grav',
                    'Ftip': 'end_effector_wrench', 'Glist': 'self._box_spatial_links', 'Slist': 'self.screw_list'}
            for i, a in enumerate(c.args):
                if i >= len(k.params):
                    break
                want = role.get(k.params[i])
                if want is None:
                    continue
                got = Inliner(fi).text(a)
                ok = got == want or got.startswith(want + '.') or got.startswith('np.asarray(' + want) or got.startswith('np.array(' + want)
                rep.ob('R08.3', fi, '%s arg %d (%s) = %s' % (k.name, i, k.params[i], got[:40]), ok,
                       'parameter `%s` of %s receives %s' % (k.params[i], k.name, got), line=c.lineno)
                if k.params[i] in KERNEL_1D_PARAMS[k.name]:
                    # a parameter whose default / annotation is a Wrench object must be flattened first
                    is_wrench = False
                    if isinstance(a, ast.Name) and a.id in fi.params:
                        d = fi.defaults.get(a.id)
                        ann = [x.annotation for x in fi.node.args.args if x.arg == a.id and x.annotation is not None]
                        is_wrench = (d is not None and 'Wrench(' in src(d)) or any('Wrench' in src(x) for x in ann)
                    rep.ob('R08.3', fi, '%s: 1-D %s <- %s' % (k.name, k.params[i], got[:40]), not is_wrench,
                           'a Wrench object (payload shape (6,1)) is handed to the kernel\'s 1-D parameter `%s`: inside the recursion '
                           '(6,1)+(6,) broadcasts to (6,6) and the torque assignment raises ValueError for every call with a Wrench '
                           '(including the default)' % k.params[i], line=c.lineno)
            # unpack arity
            par = fi.module.parents.get(c)
            if isinstance(par, ast.Assign) and isinstance(par.targets[0], (ast.Tuple, ast.List)):
                n_t = len(par.targets[0].elts)
                rets = returns_of(k)
                arity = None
                if rets and all(isinstance(r.value, ast.Tuple) for r in rets):
                    arity = {len(r.value.elts) for r in rets}
                elif rets:
                    arity = {1}
                ok = arity == {n_t}
                rep.ob('R08.3', fi, src(par)[:80], ok,
                       '%d targets unpack the result of %s, which returns %s value(s): ValueError unless the arm has exactly %d joints'
                       % (n_t, k.name, sorted(arity) if arity else '?', n_t), line=par.lineno)
    rep.count('dynamics kernel call sites in Arm', n_sites)
    rep.floor('R08.3', 'dynamics kernel call sites in Arm', n_sites, 2)
    r084(model, rep, arm)
    r085(model, rep, arm)
    from . import frames
    rep.rule('R08.6', 'dynamics methods of Arm: every relative transform inv(A) @ B is taken between poses expressed in the same frame (world vs base)')
    dyn = [fi for name, fi in sorted(arm.methods.items()) if 'ynamics' in name or name in ('massMatrix', 'coriolisGravity')]
    n = frames.check_methods(rep, 'R08.6', dyn)
    rep.count('R08.6 relative transforms with both frames known', n)
    rep.floor('R08.6', 'typed relative transforms in the dynamics methods', n, 1)
    # ---------------------------------------------------------------- R08.7
    from . import memocoh
    rep.rule('R08.7', 'dynamics methods of Arm keep nothing between calls that a configuration setter can outdate: every method that writes a '
             'field a kept value was computed from also discards the kept value (def-use closure over Arm and its bases)')
    arm0 = model.cls(ARM, 'Arm')
    dyn0 = [fi for name, fi in sorted(arm0.methods.items()) if 'ynamics' in name or name in ('massMatrix', 'coriolisGravity', 'jacobianLink')]
    memocoh.check(rep, 'R08.7', arm0, dyn0, 'torques / mass matrix / accelerations of an arm whose link frames, screws or inertias were changed')
    rep.floor('R08.7', 'dynamics methods scanned', len(dyn0), 3)


def _sum_to_loop(fi):
    """`return sum((f(i) for i in range(n)), start)` / `x = sum([...], start)` is the accumulation loop `acc = start; for i in range(n): acc = acc + f(i)`
    (the built-in adds left to right from the start value): read in that form, in a copy of the method."""
    import copy

    def rewrite(stmts):
        out = []
        for st in stmts:
            for fld in ('body', 'orelse', 'finalbody'):
                if isinstance(getattr(st, fld, None), list) and not isinstance(st, (ast.FunctionDef, ast.ClassDef)):
                    setattr(st, fld, rewrite(getattr(st, fld)))
            v = st.value if isinstance(st, (ast.Return, ast.Assign)) else None
            if isinstance(v, ast.Call) and isinstance(v.func, ast.Name) and v.func.id == 'sum' and not v.keywords and 1 <= len(v.args) <= 2 \
                    and isinstance(v.args[0], (ast.GeneratorExp, ast.ListComp)) and len(v.args[0].generators) == 1 \
                    and not v.args[0].generators[0].ifs and not v.args[0].generators[0].is_async \
                    and isinstance(v.args[0].generators[0].iter, ast.Call) and isinstance(v.args[0].generators[0].iter.func, ast.Name) \
                    and v.args[0].generators[0].iter.func.id == 'range':
                g = v.args[0].generators[0]
                acc = 'acc__sum%d' % st.lineno
                start = v.args[1] if len(v.args) == 2 else ast.Constant(0)
                init = ast.Assign(targets=[ast.Name(acc, ast.Store())], value=start)
                step = ast.Assign(targets=[ast.Name(acc, ast.Store())], value=ast.BinOp(ast.Name(acc, ast.Load()), ast.Add(), v.args[0].elt))
                loop = ast.For(target=g.target, iter=g.iter, body=[step], orelse=[])
                last = ast.Return(ast.Name(acc, ast.Load())) if isinstance(st, ast.Return) else ast.Assign(targets=st.targets, value=ast.Name(acc, ast.Load()))
                for n_ in (init, loop, last):
                    ast.copy_location(n_, st)
                    ast.fix_missing_locations(n_)
                out += [init, loop, last]
            else:
                out.append(st)
        return out
    if not any(isinstance(c_, ast.Call) and isinstance(c_.func, ast.Name) and c_.func.id == 'sum' for c_ in ast.walk(fi.node)):
        return fi
    g_ = copy.copy(fi)
    g_.node = copy.deepcopy(fi.node)
    g_.node.body = rewrite(g_.node.body)
    return g_


def _strip(e):
    """Drop value-preserving wrappers: parentheses are not in the AST; .reshape(..) / .flatten() / np.asarray(..)."""
    while True:
        if isinstance(e, ast.Call) and isinstance(e.func, ast.Attribute) and e.func.attr in ('reshape', 'flatten', 'copy', 'squeeze', 'ravel'):
            e = e.func.value
        elif isinstance(e, ast.Call) and src(e.func) in ('np.asarray', 'np.array', 'numpy.asarray') and len(e.args) == 1 and not isinstance(e.args[0], (ast.List, ast.Tuple)):
            e = e.args[0]
        else:
            return e


def _terms(e, asg, want):
    """Top-level additive terms of `e` (names defined once are opened when their definition mentions `want`)."""
    e = _strip(e)
    if isinstance(e, ast.BinOp) and isinstance(e.op, (ast.Add, ast.Sub)):
        return _terms(e.left, asg, want) + _terms(e.right, asg, want)
    if isinstance(e, ast.Name) and len(asg.get(e.id, ())) == 1 and want(asg[e.id][0]):
        return _terms(asg[e.id][0], asg, want)
    return [e]


def _roots(e, defs, params, seen=None):
    """Model inputs an expression depends on: parameters and self.<field> reads, through local definitions."""
    seen = set() if seen is None else seen
    out = set()
    for n in ast.walk(e):
        if isinstance(n, ast.Attribute) and isinstance(n.value, ast.Name) and n.value.id == 'self':
            out.add('self.' + n.attr)
        elif isinstance(n, ast.Name) and isinstance(n.ctx, ast.Load):
            if n.id in defs and n.id not in seen:
                seen.add(n.id)
                for d in defs[n.id]:
                    out |= _roots(d, defs, params, seen)
            elif n.id in params and n.id != 'self':
                out.add(n.id)
    return out


def r084(model, rep, arm):
    """Sibling conformance inside Arm.inverseDynamics' forward recursion: the first link is the general step with the
    previous twist 0 and the previous acceleration (0, -g).  Decided on data dependences, not on values."""
    rep.rule('R08.4', 'Arm.inverseDynamics: the base step of the forward recursion carries (0,0,0,-g) through the same link transform '
                      '(same model inputs: joint value, screw, link frames) as the general step carries the previous acceleration')
    fi = arm.methods.get('inverseDynamics')
    if fi is None:
        raise AnalysisError('anchor vanished: Arm.inverseDynamics')
    params = set(fi.params)
    gname = fi.params[4] if len(fi.params) > 4 else 'grav'
    defs = {}
    for n in walk_own(fi.node):
        if isinstance(n, ast.Assign):
            for t in n.targets:
                b = t
                while isinstance(b, ast.Subscript):
                    b = b.value
                if isinstance(b, ast.Name):
                    defs.setdefault(b.id, []).append(n.value)
    defs.pop(gname, None)           # `grav = self.grav` default: keep grav as a root
    single = {k: v for k, v in assigns_of(fi).items()}
    # stores into the acceleration table (second table written with theta_dot_dot)
    stores = [n for n in walk_own(fi.node) if isinstance(n, ast.Assign) and isinstance(n.targets[0], ast.Subscript)
              and isinstance(n.targets[0].value, ast.Name)]
    acc_tab = None
    for n in stores:
        if fi.params[3] in {x.id for x in ast.walk(n.value) if isinstance(x, ast.Name)}:
            acc_tab = n.targets[0].value.id
    if acc_tab is None:
        rep.unresolved_item('R08.4', fi.where, 'acceleration table of the forward recursion not recognised')
        return
    acc_stores = [n for n in stores if n.targets[0].value.id == acc_tab]

    def mentions(name):
        return lambda e: any(isinstance(x, ast.Name) and x.id == name for x in ast.walk(e))

    def opened(e, pred):
        e = _strip(e)
        while isinstance(e, ast.Name) and len(single.get(e.id, ())) == 1 and pred(single[e.id][0]):
            e = _strip(single[e.id][0])
        return e

    gen_ops, base = [], []
    for n in acc_stores:
        for t in _terms(n.value, single, lambda e: mentions(acc_tab)(e) or mentions(gname)(e)):
            t = opened(t, lambda e: mentions(acc_tab)(e) or mentions(gname)(e))
            if isinstance(t, ast.BinOp) and isinstance(t.op, ast.MatMult):
                r_ = opened(t.right, lambda e: mentions(acc_tab)(e) or mentions(gname)(e))       # the right operand may have been named (base acceleration)
                if mentions(acc_tab)(r_) and not mentions(gname)(t.left) and not mentions(gname)(r_):
                    gen_ops.append((n, t.left))
                elif mentions(gname)(r_) and not mentions(gname)(t.left):
                    base.append((n, t.left, r_))
            elif mentions(gname)(t):
                base.append((n, None, t))
    rep.count('R08.4 propagation terms (general step)', len(gen_ops))
    rep.count('R08.4 gravity terms (base step)', len(base))
    if len(gen_ops) != 1 or len(base) != 1:
        rep.ob('R08.4', fi, 'one propagation term and one gravity term in the forward recursion', False,
               'found %d term(s) `X @ %s[.., i-1]` and %d term(s) carrying `%s`: the base acceleration (0,0,0,-g) must enter exactly once, '
               'through the link transform' % (len(gen_ops), acc_tab, len(base), gname))
        return
    (gn, gop), (bn, bop, bvec) = gen_ops[0], base[0]
    want = _roots(gop, defs, params) - {'self.num_dof'}
    got = _roots(bop, defs, params) if bop is not None else set()
    missing = sorted(want - got)
    rep.ob('R08.4', fi, 'gravity enters through the link transform of the general step', not missing,
           'the general step propagates the previous acceleration with `%s` (depends on %s); the base step applies `%s` to the gravity vector, '
           'which does not depend on %s: link 0 sees gravity in a frame that ignores them, so the gravity torques are wrong whenever those inputs '
           'matter (joint 0 away from zero / link frame different from the home frame)'
           % (src(gop)[:60], ', '.join(sorted(want)), src(bop)[:70] if bop is not None else '(nothing)', ', '.join(missing)), line=bn.lineno)
    # the carried vector is (0,0,0,-g)
    v = opened(bvec, mentions(gname))
    txt = src(v).replace(' ', '')
    zero3 = ('np.array([0,0,0])', 'np.zeros(3)', 'np.zeros((3))', 'np.zeros((3,))', '[0,0,0]', 'np.array([0.0,0.0,0.0])')
    neg = ('-1*%s' % gname, '-%s' % gname, '-1.0*%s' % gname, '%s*-1' % gname, '-1*np.asarray(%s)' % gname)
    pos = (gname,)
    m = None
    if isinstance(v, ast.Call) and src(v.func) in ('np.hstack', 'np.concatenate', 'np.append', 'np.r_') and v.args:
        parts = v.args[0].elts if isinstance(v.args[0], (ast.Tuple, ast.List)) and len(v.args) == 1 else list(v.args)
        m = [src(p).replace(' ', '') for p in parts]
    if m is not None and len(m) == 2 and m[0] in zero3 and m[1] in neg:
        rep.ob('R08.4', fi, 'base acceleration = (0, 0, 0, -g)', True, txt, line=bn.lineno)
    elif m is not None and len(m) == 2 and ((m[0] in zero3 and m[1] in pos) or (m[1] in zero3 and m[0] in neg + pos)):
        rep.ob('R08.4', fi, 'base acceleration = (0, 0, 0, -g)', False,
               'the base acceleration is %s: the recursion needs the angular part zero and the linear part -g (a fixed base is equivalent to an '
               'upward acceleration of g)' % txt, line=bn.lineno)
    else:
        rep.unresolved_item('R08.4', '%s:%d' % (fi.module.relpath, bn.lineno), 'base acceleration vector not in a recognised form: %s' % txt[:80])


def _signed_terms(e, sign=1):
    e = _strip(e)
    if isinstance(e, ast.BinOp) and isinstance(e.op, ast.Add):
        return _signed_terms(e.left, sign) + _signed_terms(e.right, sign)
    if isinstance(e, ast.BinOp) and isinstance(e.op, ast.Sub):
        return _signed_terms(e.left, sign) + _signed_terms(e.right, -sign)
    return [(sign, e)]


def _filled_tables(fn_node):
    """locals filled element by element in a loop over their index: {name: (index variable, value expression)} for `T[j] = f(j)`
    inside `for j in ...` when that is the only subscript store into T (a per-link cache written by the forward pass)"""
    out, count = {}, {}
    for lp in ast.walk(fn_node):
        if not (isinstance(lp, ast.For) and isinstance(lp.target, ast.Name)):
            continue
        for n in ast.walk(lp):
            if isinstance(n, ast.Assign) and len(n.targets) == 1 and isinstance(n.targets[0], ast.Subscript) and isinstance(n.targets[0].value, ast.Name) \
                    and isinstance(n.targets[0].slice, ast.Name) and n.targets[0].slice.id == lp.target.id:
                nm = n.targets[0].value.id
                count[nm] = count.get(nm, 0) + 1
                out[nm] = (lp.target.id, n.value)
    for n in ast.walk(fn_node):
        if isinstance(n, ast.Assign) and isinstance(n.targets[0], ast.Subscript) and isinstance(n.targets[0].value, ast.Name) \
                and not (isinstance(n.targets[0].slice, ast.Name)):
            count[n.targets[0].value.id] = count.get(n.targets[0].value.id, 0) + 1
    return {k: v for k, v in out.items() if count.get(k) == 1}


def _read_tables(e, tables):
    """T[idx] -> f(idx) for the tables of _filled_tables"""
    import copy as _copy

    class R(ast.NodeTransformer):
        def visit_Subscript(self, n):
            n = self.generic_visit(n)
            if isinstance(n.value, ast.Name) and n.value.id in tables and not isinstance(n.slice, (ast.Slice, ast.Tuple)):
                j, val = tables[n.value.id]
                idx = n.slice

                class S(ast.NodeTransformer):
                    def visit_Name(self_, m):
                        return _copy.deepcopy(idx) if (m.id == j and isinstance(m.ctx, ast.Load)) else m
                return S().visit(_copy.deepcopy(val))
            return n
    return R().visit(_copy.deepcopy(e))


def r085(model, rep, arm):
    """Sibling conformance of the two branches of the backward (force) recursion of Arm.inverseDynamics: the tip link is the
    general step with the tip wrench in place of the next link's wrench; the inertial and velocity-product terms are the same
    expression in both branches and carry one link index."""
    from ..engine.inline import block_env, norm_text
    rep.rule('R08.5', 'Arm.inverseDynamics backward pass: F_i = Ad(T)^T (next wrench | tip wrench) + G_i Vdot_i - ad(V_i)^T G_i V_i with the '
                      'same inertial / velocity-product terms in the tip branch and in the general branch, one link index')
    fi = arm.methods.get('inverseDynamics')
    loops = [n for n in fi.body() if isinstance(n, ast.For)]
    back = [lp for lp in loops if isinstance(lp.iter, ast.Call) and len(lp.iter.args) == 3 and norm_text(lp.iter.args[2]) == '-1']
    if len(back) != 1 or not isinstance(back[0].target, ast.Name):
        rep.unresolved_item('R08.5', fi.where, 'backward recursion loop not recognised')
        return
    lp = back[0]
    iv = lp.target.id
    ifs = [n for n in lp.body if isinstance(n, ast.If) and n.orelse]
    if len(ifs) != 1:
        rep.unresolved_item('R08.5', fi.where, 'tip / general branches of the backward recursion not recognised')
        return
    wp = fi.params[5] if len(fi.params) > 5 else 'end_effector_wrench'
    per = []
    tables = _filled_tables(fi.node)     # per-link caches filled by the forward pass are read through
    # statements after the if/else belong to both branches (a refactor may merge the common tail of the two branches)
    tail = lp.body[lp.body.index(ifs[0]) + 1:]
    for br in (ifs[0].body, ifs[0].orelse):
        env, stores = block_env(list(br) + list(tail))
        stores = [(t, _read_tables(v, tables) if v is not None else None, s_) for (t, v, s_) in stores]
        st = [(t, v) for (t, v, s_) in stores if isinstance(t, ast.Subscript) and v is not None and 'Adjoint' in norm_text(v)]
        if len(st) != 1:
            rep.unresolved_item('R08.5', '%s:%d' % (fi.module.relpath, ifs[0].lineno), 'a branch of the backward recursion does not store exactly one link wrench')
            return
        per.append((st[0][0], _signed_terms(st[0][1])))

    def nt(e):
        return norm_text(e).replace('.conj().T', '.T')
    tabs = {norm_text(t.value) for t, _ in per}
    rep.ob('R08.5', fi, 'both branches store the wrench of link i in the same table', len(tabs) == 1 and all(norm_text(t.slice).strip('()').endswith(',' + iv) or norm_text(t.slice) == iv for t, _ in per),
           'the two branches store %s' % sorted(norm_text(t) for t, _ in per), line=ifs[0].lineno)
    ftab = tabs.pop() if len(tabs) == 1 else '?'
    kinds = []
    for t, terms in per:
        prop = [(sg, e) for sg, e in terms if isinstance(e, ast.BinOp) and isinstance(e.op, ast.MatMult) and 'Adjoint' in nt(e.left) and '@' not in nt(e.left).split('Adjoint')[0]
                and (nt(e.right).startswith(ftab + '[') or nt(e.right) == wp)]
        rest = sorted((sg, nt(e)) for sg, e in terms if not any(e is p_[1] for p_ in prop))
        kinds.append((prop, rest))
    (p_tip, r_tip), (p_gen, r_gen) = kinds
    # which branch is the tip one: the one that carries the tip wrench
    if any(nt(e.right).startswith(ftab + '[') for _, e in p_tip):
        (p_tip, r_tip), (p_gen, r_gen) = (p_gen, r_gen), (p_tip, r_tip)
    ok_prop = len(p_tip) == 1 and len(p_gen) == 1 and p_tip[0][0] == 1 and p_gen[0][0] == 1 and nt(p_tip[0][1].right) == wp \
        and nt(p_gen[0][1].right).replace(' ', '') in ('%s[0:6,%s+1]' % (ftab, iv), '%s[:,%s+1]' % (ftab, iv)) \
        and nt(p_tip[0][1].left).endswith('.T') and nt(p_gen[0][1].left).endswith('.T')
    rep.ob('R08.5', fi, 'propagation term: Ad(T)^T @ (F[i+1] | tip wrench), added', ok_prop,
           'tip branch propagates %s, general branch %s' % ([('+' if s_ > 0 else '-') + nt(e)[:70] for s_, e in p_tip], [('+' if s_ > 0 else '-') + nt(e)[:70] for s_, e in p_gen]), line=ifs[0].lineno)
    rep.ob('R08.5', fi, 'inertial and velocity-product terms identical in both branches', r_tip == r_gen and len(r_tip) == 2,
           'tip branch: %s ; general branch: %s' % (r_tip, r_gen), line=ifs[0].lineno)
    want = sorted([(1, 'self._box_spatial_links[%s,:,:]@vel_dot[0:6,%s]' % (iv, iv)), (-1, 'fmr.ad(V[0:6,%s]).T@self._box_spatial_links[%s,:,:]@V[0:6,%s]' % (iv, iv, iv))])
    # names of the velocity / acceleration tables are locals: compare up to their names
    import re as _re

    def shape(terms):
        out = []
        for sg, t in terms:
            t2 = _re.sub(r'\b([A-Za-z_]\w*)\[0:6,', lambda m_: ('TAB[0:6,' if m_.group(1) not in ('self',) else m_.group(0)), t)
            out.append((sg, t2))
        return sorted(out)
    ok_form = shape(r_gen) == shape(want)
    rep.ob('R08.5', fi, '+ G_i @ Vdot_i - ad(V_i)^T @ G_i @ V_i (one link index)', ok_form, 'general branch has %s' % r_gen, line=ifs[0].lineno)
