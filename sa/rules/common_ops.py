"""Shared rule: dunder <-> operator agreement for the value classes (Screw, Wrench, tm)."""
import ast

from ..engine.model import src, walk_own

# dunder -> (ast operator class, reflected?)
DUNDERS = {
    '__add__': (ast.Add, False), '__radd__': (ast.Add, True),
    '__sub__': (ast.Sub, False), '__rsub__': (ast.Sub, True),
    '__mul__': (ast.Mult, False), '__rmul__': (ast.Mult, True),
    '__truediv__': (ast.Div, False), '__rtruediv__': (ast.Div, True),
    '__matmul__': (ast.MatMult, False), '__rmatmul__': (ast.MatMult, True),
}
COMMUTATIVE = (ast.Add, ast.Mult)
OPNAME = {ast.Add: '+', ast.Sub: '-', ast.Mult: '*', ast.Div: '/', ast.MatMult: '@', ast.FloorDiv: '//'}


def single_assignments(fnode):
    """local name -> list of value expressions assigned to it (simple Name targets only)."""
    out = {}
    for n in walk_own(fnode):
        if isinstance(n, ast.Assign):
            for t in n.targets:
                if isinstance(t, ast.Name):
                    out.setdefault(t.id, []).append(n.value)
        elif isinstance(n, ast.withitem) and isinstance(n.optional_vars, ast.Name):
            out.setdefault(n.optional_vars.id, []).append(n.context_expr)
    return out


def unwrap(expr, wrappers, assigns, depth=0):
    """Strip result-constructing wrappers (Class(X, ...), self._wrenchConverter(X)) and resolve single-assignment
    locals; returns the core expression."""
    while depth < 8:
        depth += 1
        if isinstance(expr, ast.Call):
            f = expr.func
            nm = f.id if isinstance(f, ast.Name) else (f.attr if isinstance(f, ast.Attribute) else None)
            if nm in wrappers and expr.args:
                expr = expr.args[0]
                continue
            if nm in wrappers and expr.keywords and expr.keywords[0].arg in ('force', 'data', 'possible_screw'):
                expr = expr.keywords[0].value          # the payload handed over by keyword
                continue
        if isinstance(expr, ast.Name) and expr.id in assigns and len(assigns[expr.id]) == 1:
            expr = assigns[expr.id][0]
            continue
        break
    return expr


def derives_from(expr, names, assigns, depth=0):
    """expr mentions one of `names`, directly or through single-assignment locals."""
    # `self` as the receiver of a private helper call (self._asColumn(other)) is not a use of self's value
    helper_recv = {id(c.func.value) for c in ast.walk(expr) if isinstance(c, ast.Call) and isinstance(c.func, ast.Attribute)
                   and isinstance(c.func.value, ast.Name) and c.func.value.id == 'self' and c.func.attr.startswith('_') and not c.func.attr.startswith('__')}
    for n in ast.walk(expr):
        if isinstance(n, ast.Name):
            if id(n) in helper_recv:
                continue
            if n.id in names:
                return True
            if depth < 4 and n.id in assigns:
                if any(derives_from(v, names, assigns, depth + 1) for v in assigns[n.id]):
                    return True
    return False


def check_dunders(rep, rule, model, ci, dunders, wrappers, exceptions, other_projections=()):
    """For every return of every listed dunder of class ci: the core expression is
       <self-projection> OP <other-projection> (mirrored for reflected dunders), a delegation to the same
       (or, for commutative operators, the non-reflected) dunder, or an entry of `exceptions`
       {(method, core_src_prefix): reason}.  Returns number of return branches examined."""
    n_branches = 0
    for name in dunders:
        fi = ci.methods.get(name)
        if fi is None:
            continue
        fi = flat_method(ci, name)          # private helpers (also ones handed the superclass operator) read in place
        op, reflected = DUNDERS[name]
        params = fi.params
        if len(params) < 2:
            continue
        other = params[1]
        assigns = single_assignments(fi.node)
        for ret in [n for n in walk_own(fi.node) if isinstance(n, ast.Return) and n.value is not None]:
            if isinstance(ret.value, ast.Constant) and ret.value.value is None:
                continue            # `return None`: the operand kind is not supported (same as falling off the end)
            n_branches += 1
            core = unwrap(ret.value, wrappers, assigns)
            text = src(core)
            exc = None
            for (m, prefix), reason in exceptions.items():
                if m == name and text.startswith(prefix):
                    exc = reason
            if exc:
                rep.ob(rule, fi, 'return ' + src(ret.value), True, 'documented non-standard branch: ' + exc, line=ret.lineno)
                continue
            ident = _identity_branch(fi, ret, core, op, reflected, other)
            if ident:
                rep.ob(rule, fi, 'return ' + src(ret.value), True, ident, line=ret.lineno)
                continue
            ok, msg = _agrees(core, op, reflected, other, assigns, name)
            rep.ob(rule, fi, 'return ' + src(ret.value), ok, msg, line=ret.lineno)
    return n_branches


IDENTITY = {ast.Add: (0, True), ast.Sub: (0, False), ast.Mult: (1, True), ast.Div: (1, False), ast.MatMult: (None, False)}


def _identity_branch(fi, ret, core, op, reflected, other):
    """`return self` (or a copy) under a guard `other == e` where e is the identity element of the operator on the
    side `other` stands on: the value equals self OP other, so the branch agrees with the operator."""
    e, both_sides = IDENTITY.get(op, (None, False))
    if e is None or (reflected and not both_sides):
        return None
    c = core
    if isinstance(c, ast.Call) and isinstance(c.func, ast.Attribute) and c.func.attr == 'copy' and not c.args:
        c = c.func.value
    if not (isinstance(c, ast.Name) and c.id == 'self'):
        return None
    node, par = ret, fi.module.parents.get(ret)
    while par is not None and par is not fi.node:
        if isinstance(par, ast.If) and node in par.body:
            tests = par.test.values if isinstance(par.test, ast.BoolOp) and isinstance(par.test.op, ast.And) else [par.test]
            for t in tests:
                if isinstance(t, ast.Compare) and len(t.ops) == 1 and isinstance(t.ops[0], ast.Eq):
                    a, b = t.left, t.comparators[0]
                    for x, y in ((a, b), (b, a)):
                        if isinstance(x, ast.Name) and x.id == other and isinstance(y, ast.Constant) and not isinstance(y.value, bool) \
                                and isinstance(y.value, (int, float)) and y.value == e:
                            return 'identity element: %s == %r, so the result equals self' % (other, e)
        node, par = par, fi.module.parents.get(par)
    return None


_OPERATOR_FUNCS = {'add': ast.Add, 'sub': ast.Sub, 'mul': ast.Mult, 'truediv': ast.Div, 'matmul': ast.MatMult, 'floordiv': ast.FloorDiv}


def _as_binop(core):
    """operator.add(a, b) / np.add(a, b) ... spelled as the binary operation it is"""
    if isinstance(core, ast.Call) and isinstance(core.func, ast.Attribute) and isinstance(core.func.value, ast.Name) and len(core.args) == 2 and not core.keywords:
        mod, fn = core.func.value.id, core.func.attr
        table = _OPERATOR_FUNCS if mod == 'operator' else ({'add': ast.Add, 'subtract': ast.Sub, 'multiply': ast.Mult, 'divide': ast.Div, 'matmul': ast.MatMult}
                                                          if mod in ('np', 'numpy') else {})
        if fn in table:
            return ast.copy_location(ast.BinOp(left=core.args[0], op=table[fn](), right=core.args[1]), core)
    return core


def _agrees(core, op, reflected, other, assigns, name):
    opn = OPNAME[op]
    core = _as_binop(core)
    # delegation to a dunder of the same operator
    if isinstance(core, ast.Call) and isinstance(core.func, ast.Attribute) and core.func.attr.startswith('__'):
        tgt = core.func.attr
        from_self = (isinstance(core.func.value, ast.Name) and core.func.value.id == 'self') or \
                    (isinstance(core.func.value, ast.Call) and isinstance(core.func.value.func, ast.Name)
                     and core.func.value.func.id == 'super')
        # Parent.__op__(self, other): the superclass operator named explicitly
        if not from_self and isinstance(core.func.value, ast.Name) and core.func.value.id[:1].isupper() and core.args \
                and isinstance(core.args[0], ast.Name) and core.args[0].id == 'self':
            from_self = True
        if tgt in DUNDERS and from_self:
            top, trefl = DUNDERS[tgt]
            if top is op and (trefl == reflected or op in COMMUTATIVE):
                return True, 'delegates to %s' % tgt
            return False, '%s delegates to %s: operator or operand order differs (%s is not commutative)' % (name, tgt, opn)
        # delegation to the OTHER operand's dunder with self as its argument: other.__sub__(self) is `other - self` (what __rsub__ must
        # compute); other.__rsub__(self) is `self - other`
        if tgt in DUNDERS and isinstance(core.func.value, ast.Name) and core.func.value.id == other and len(core.args) == 1 \
                and isinstance(core.args[0], ast.Name) and core.args[0].id == 'self' and not core.keywords:
            top, trefl = DUNDERS[tgt]
            if top is op and (trefl != reflected or op in COMMUTATIVE):
                return True, 'delegates to %s.%s(self)' % (other, tgt)
            return False, '%s delegates to %s.%s(self): operator or operand order differs' % (name, other, tgt)
    if not isinstance(core, ast.BinOp):
        return False, 'result is not an application of `%s` to the operands (got %s)' % (opn, src(core)[:80])
    if not isinstance(core.op, op):
        return False, '%s computes `%s` where the operator is `%s`' % (name, OPNAME.get(type(core.op), type(core.op).__name__), opn)
    l_self = derives_from(core.left, {'self'}, assigns)
    r_self = derives_from(core.right, {'self'}, assigns)
    l_oth = derives_from(core.left, {other}, assigns)
    r_oth = derives_from(core.right, {other}, assigns)
    if op in COMMUTATIVE:
        if (l_self and r_oth) or (l_oth and r_self):
            return True, 'ok'
        return False, 'operands of `%s` are not (self, %s)' % (opn, other)
    if not reflected:
        ok = l_self and r_oth and not l_oth
    else:
        ok = l_oth and r_self and not l_self
    if ok:
        return True, 'ok'
    want = ('self %s %s' % (opn, other)) if not reflected else ('%s %s self' % (other, opn))
    return False, 'operand order: %s must compute %s, got %s' % (name, want, src(core)[:80])


def pinv_cutoff(call):
    """None when a pseudo-inverse call keeps NumPy's default singular-value cut-off (an exact inverse on every full-rank
    matrix up to rounding); otherwise a text describing the truncation that was requested."""
    import ast as _ast
    extra = list(call.args[1:]) + [k.value for k in call.keywords if k.arg in ('rcond', 'rtol')]
    for v in extra:
        if isinstance(v, _ast.Constant) and isinstance(v.value, (int, float)) and not isinstance(v.value, bool) and v.value <= 1e-12:
            continue
        return _ast.unparse(v)
    return None


def flat_method(ci, name, depth=2, stop=()):
    """FuncInfo copy of method `name` of class `ci` with the class's private helpers inlined (AST partial evaluation, conditional expressions
    lowered; structure only).  The original FuncInfo when nothing changes."""
    import ast as _ast
    import copy
    from ..engine import peval
    from ..engine.model import AnalysisError
    f = ci.methods.get(name)
    if f is None:
        raise AnalysisError('anchor vanished: %s.%s' % (ci.name, name))
    helpers = {m_ for m_ in ci.methods if m_.startswith('_') and not m_.startswith('__')}
    uses_helper = any(isinstance(c_, _ast.Call) and isinstance(c_.func, _ast.Attribute) and c_.func.attr in helpers and c_.func.attr not in stop
                      and isinstance(c_.func.value, _ast.Name) and c_.func.value.id in ('self', ci.name) for c_ in _ast.walk(f.node))
    local_fns = {n_.name for n_ in _ast.walk(f.node) if isinstance(n_, _ast.FunctionDef) and n_ is not f.node} | \
        {t_.id for n_ in _ast.walk(f.node) if isinstance(n_, _ast.Assign) and isinstance(n_.value, _ast.Lambda) for t_ in n_.targets if isinstance(t_, _ast.Name)}
    uses_closure = any(isinstance(c_, _ast.Call) and isinstance(c_.func, _ast.Name) and c_.func.id in local_fns for c_ in _ast.walk(f.node))
    if not uses_helper and not uses_closure:
        return f                      # nothing to read in place: the rule sees the method as written
    flat = peval.flatten({n_: f_.node for n_, f_ in ci.methods.items()}, f.node, depth=depth, stop=stop, impure=True)
    _ast.fix_missing_locations(flat)
    if _ast.dump(flat) == _ast.dump(f.node):
        return f
    g = copy.copy(f)
    g.node = flat
    for parent in _ast.walk(flat):
        for ch in _ast.iter_child_nodes(parent):
            f.module.parents[ch] = parent
    f.module.parents[flat] = f.module.parents.get(f.node)
    return g


def flat_function(fi, depth=2, stop=()):
    """FuncInfo copy of a module-level function with the module's private helpers (`_h(...)`) inlined; the original when nothing changes."""
    import ast as _ast
    import copy
    from ..engine import peval
    mod_funcs = {n_.name: n_ for n_ in fi.module.tree.body if isinstance(n_, _ast.FunctionDef)}
    uses_helper = any(isinstance(c_, _ast.Call) and isinstance(c_.func, _ast.Name) and c_.func.id in mod_funcs and c_.func.id.startswith('_')
                      and not c_.func.id.startswith('__') and c_.func.id not in stop for c_ in _ast.walk(fi.node))
    if not uses_helper:
        return fi                     # nothing to read in place: the rule sees the function as written
    flat = peval.flatten_function(mod_funcs, fi.node, depth=depth, stop=stop, impure=False)
    _ast.fix_missing_locations(flat)
    if _ast.dump(flat) == _ast.dump(fi.node):
        return fi
    g = copy.copy(fi)
    g.node = flat
    for parent in _ast.walk(flat):
        for ch in _ast.iter_child_nodes(parent):
            fi.module.parents[ch] = parent
    fi.module.parents[flat] = fi.module.parents.get(fi.node)
    return g


def shared_field_objects(rep, rule, ci, allowed=(), what='state'):
    """One mutable object bound to two fields.  In every method of class `ci`: a local that visibly holds a fresh mutable object (an array
    constructor / copy / slice view, a tm, a list / dict display or comprehension) and is stored into two different fields of self, or the
    object of one field stored into another field, without a copy in between.  In-place updates of one field then change the other.
    `allowed`: {(method, frozenset of fields)} confirmed harmless by reading.  -> number of field stores examined"""
    import ast as _ast
    from ..engine.model import walk_own, src
    n = 0

    def mutable_value(v):
        if isinstance(v, (_ast.List, _ast.Dict, _ast.Set, _ast.ListComp, _ast.DictComp, _ast.SetComp)):
            return True
        if isinstance(v, _ast.Call):
            f = v.func
            tail = f.attr if isinstance(f, _ast.Attribute) else (f.id if isinstance(f, _ast.Name) else '')
            recv_np = isinstance(f, _ast.Attribute) and isinstance(f.value, _ast.Name) and f.value.id in ('np', 'numpy')
            return recv_np or tail in ('copy', 'deepcopy', 'tm', 'Wrench', 'Screw', 'list', 'dict', 'set', 'reshape', 'transpose', 'flatten')
        if isinstance(v, _ast.Subscript):
            return isinstance(v.value, _ast.Attribute) and isinstance(v.value.value, _ast.Name) and v.value.value.id == 'self'
        return False
    for name, fi in sorted(ci.methods.items()):
        defs = {}
        for st in walk_own(fi.node):
            if isinstance(st, _ast.Assign) and len(st.targets) == 1 and isinstance(st.targets[0], _ast.Name):
                defs.setdefault(st.targets[0].id, []).append(st.value)
        bound = {}
        for st in walk_own(fi.node):
            if not isinstance(st, _ast.Assign):
                continue
            for t in st.targets:
                if isinstance(t, _ast.Attribute) and isinstance(t.value, _ast.Name) and t.value.id == 'self':
                    v = st.value
                    n += 1
                    if isinstance(v, _ast.Name) and defs.get(v.id) and all(mutable_value(d_) for d_ in defs[v.id]):
                        bound.setdefault(v.id, []).append((t.attr, st.lineno))
                    elif isinstance(v, _ast.Attribute) and isinstance(v.value, _ast.Name) and v.value.id == 'self' and v.attr != t.attr:
                        bound.setdefault('self.' + v.attr, [(v.attr, st.lineno)]).append((t.attr, st.lineno))
        for key, fields in sorted(bound.items()):
            fs = frozenset(f_ for f_, _l in fields)
            if len(fs) < 2 or (name, fs) in allowed:
                continue
            rep.ob(rule, fi, '%s.%s: `%s` bound to one field only' % (ci.name, name, key), False,
                   'the object `%s` is stored in the fields %s without a copy: they are now one object, and an in-place update of either (an element '
                   'store, a kernel that fills a buffer, a mutating method) silently changes the other piece of %s' % (key, sorted(fs), what),
                   line=fields[-1][1])
    return n


class RuleAlias:
    """A reporter that files obligations of one rule id under another: lets a property run a neighbour's rule function (whose rule id is
    fixed) as a clause of its own.  Everything else is the wrapped reporter."""

    def __init__(self, rep, mapping):
        object.__setattr__(self, '_rep', rep)
        object.__setattr__(self, '_map', dict(mapping))

    def __getattr__(self, name):
        return getattr(self._rep, name)

    def __setattr__(self, name, value):
        setattr(self._rep, name, value)

    def _r(self, rule):
        return self._map.get(rule, rule)

    def ob(self, rule, *a, **k):
        return self._rep.ob(self._r(rule), *a, **k)

    def rule(self, rid, text):
        return self._rep.rule(self._r(rid), text)

    def floor(self, rule, *a, **k):
        return self._rep.floor(self._r(rule), *a, **k)

    def unresolved_item(self, rule, *a, **k):
        return self._rep.unresolved_item(self._r(rule), *a, **k)


def positional_self_calls(ci, fi):
    """FuncInfo copy of method `fi` of class `ci` in which every call `self.<method>(..., name=value, ...)` of a method of the class is written
    with positional arguments only (keywords moved to the position of their parameter, skipped parameters filled with the callee's default
    expressions).  Rules that read such calls by position then do not depend on how the arguments were spelled.  The original when nothing
    changes."""
    import ast as _ast
    import copy
    node = copy.deepcopy(fi.node)
    changed = False
    for c in _ast.walk(node):
        if not (isinstance(c, _ast.Call) and c.keywords and all(k.arg for k in c.keywords) and isinstance(c.func, _ast.Attribute)
                and isinstance(c.func.value, _ast.Name) and c.func.value.id == 'self' and c.func.attr in ci.methods):
            continue
        callee = ci.methods[c.func.attr]
        params = callee.params[1:]
        dflt = dict(zip(params[len(params) - len(callee.node.args.defaults):], callee.node.args.defaults))
        kw = {k.arg: k.value for k in c.keywords}
        if not set(kw) <= set(params):
            continue
        args = list(c.args)
        last = max(params.index(k) for k in kw)
        ok = True
        for p_ in params[len(args):last + 1]:
            if p_ in kw:
                args.append(kw[p_])
            elif p_ in dflt:
                args.append(copy.deepcopy(dflt[p_]))
            else:
                ok = False
                break
        if ok:
            c.args, c.keywords = args, []
            changed = True
    if not changed:
        return fi
    _ast.fix_missing_locations(node)
    g = copy.copy(fi)
    g.node = node
    for parent in _ast.walk(node):
        for ch in _ast.iter_child_nodes(parent):
            fi.module.parents[ch] = parent
    fi.module.parents[node] = fi.module.parents.get(fi.node)
    return g


def view_swaps(fi):
    """Tuple assignments that exchange ROWS of a NumPy array of rank >= 2 through views:  a[i], a[j] = a[j], a[i].
    The right-hand side is evaluated to two views of `a` (basic indexing of a rank >= 2 array does not copy); the first store overwrites row
    i, and the second store then copies from the view of row i, which already holds the new content: both rows end up equal to the old row
    j.  (For a list, or for scalar elements of a rank-1 array, the same statement is a correct swap.)  Reported only when every definition of
    `a` in the function is recognisably an array of rank >= 2.  -> [(lineno, text, array name)]"""
    import ast as _ast
    from ..engine.model import walk_own as _walk_own, src as _src
    defs = {}
    for n in _walk_own(fi.node):
        if isinstance(n, _ast.Assign) and len(n.targets) == 1 and isinstance(n.targets[0], _ast.Name):
            defs.setdefault(n.targets[0].id, []).append(n.value)
        elif isinstance(n, (_ast.AugAssign, _ast.For)) and isinstance(n.target, _ast.Name):
            defs.setdefault(n.target.id, []).append(None)

    def rank2(e):
        if not isinstance(e, _ast.Call):
            return False
        fn = _src(e.func)
        if fn in ('np.array', 'numpy.array', 'np.asarray', 'numpy.asarray') and e.args and isinstance(e.args[0], (_ast.List, _ast.Tuple)) and e.args[0].elts \
                and all(isinstance(x, (_ast.List, _ast.Tuple)) for x in e.args[0].elts):
            return True
        if fn in ('np.zeros', 'np.ones', 'np.empty', 'np.full', 'numpy.zeros', 'numpy.ones', 'numpy.empty', 'numpy.full') and e.args \
                and isinstance(e.args[0], (_ast.Tuple, _ast.List)) and len(e.args[0].elts) >= 2:
            return True
        if fn in ('np.vstack', 'np.column_stack', 'np.eye', 'np.identity', 'numpy.vstack', 'numpy.column_stack', 'numpy.eye', 'numpy.identity'):
            return True
        if isinstance(e.func, _ast.Attribute) and e.func.attr == 'reshape' and e.args:
            sh = e.args[0] if len(e.args) == 1 else _ast.Tuple(elts=list(e.args))
            return isinstance(sh, (_ast.Tuple, _ast.List)) and len(sh.elts) >= 2
        if isinstance(e.func, _ast.Attribute) and e.func.attr == 'copy' and not e.args:
            v = e.func.value
            return isinstance(v, _ast.Name) and is_rank2(v.id)
        return False

    def is_rank2(name, seen=()):
        ds = defs.get(name)
        return bool(ds) and name not in seen and all(d is not None and rank2(d) for d in ds)
    out = []
    for n in _walk_own(fi.node):
        if not (isinstance(n, _ast.Assign) and len(n.targets) == 1 and isinstance(n.targets[0], (_ast.Tuple, _ast.List))
                and isinstance(n.value, (_ast.Tuple, _ast.List)) and len(n.targets[0].elts) == len(n.value.elts) >= 2):
            continue
        tg, vs = n.targets[0].elts, n.value.elts
        for k, t in enumerate(tg):
            if not (isinstance(t, _ast.Subscript) and isinstance(t.value, _ast.Name) and not isinstance(t.slice, (_ast.Tuple,)) and is_rank2(t.value.id)):
                continue
            # a later right-hand element reads, as a view, the row an earlier target stores into
            for j in range(k + 1, len(vs)):
                v = vs[j]
                if isinstance(v, _ast.Subscript) and isinstance(v.value, _ast.Name) and v.value.id == t.value.id and _src(v.slice) == _src(t.slice) \
                        and not isinstance(v.slice, _ast.Tuple):
                    out.append((n.lineno, _src(n)[:90], t.value.id))
                    break
            else:
                continue
            break
    return out
