"""C06 - arm Jacobians are the derivative of forward kinematics; statics is its transpose.

Decided statically:
  R06.1 derived-field freshness: on every path of every public Arm method the body screw list is
        re-derived (Ad(inv(home)) . space screws) after the last write of the home tool pose or of the
        space screws - so the body Jacobian always belongs to the current kinematic model.
  R06.2 space/body pairing: jacobian -> JacobianSpace(space screws, theta); jacobianBody ->
        JacobianBody(BODY screws, theta); jacobianLink = Ad(inv(FKLink(theta,i))) @ JacobianSpace(prefix i+1)
        zero-padded to len(theta) with ONE index i; jacobianEETrans = Ad(inv(tool pose with zeroed
        rotation)) @ jacobian; velocityAtEndEffector = jacobian @ rates.
  R06.3 statics sibling table of Robot: forward = J(.)^T @ wrench, inverse = pinv(J(.)^T) @ forces, the
        Body variants use jacobianBody; Robot.jacobianBody = Ad(inv(tool pose)) @ jacobian.
  R06.4 staticForcesWithLinkMasses: exactly one weight wrench per link and iteration, built from
        joint pose i @ centre of gravity i with mass i and the arm's gravity, accumulated, and torque i-1
        taken from the prefix Jacobian 0:i (one index in all places).
Not decided: derivative-of-FK equalities, full-rank inverse (numerical).
"""
import ast

from ..engine.model import AnalysisError, src, walk_own
from ..engine.flow import Flow
from ..engine.inline import Inliner, norm_text, range_triple
from ..engine.typestate import EventDomain
from .armstate import ArmChecker, ARM, self_field
from .common_ops import pinv_cutoff
from .c05 import r050

ROBOT = 'basic_robotics.kinematics.robot_model'


def returns_of(fi):
    return sorted((n for n in walk_own(fi.node) if isinstance(n, ast.Return) and n.value is not None), key=lambda n: n.lineno)


def assigns_of(fi):
    out = {}
    for n in walk_own(fi.node):
        if isinstance(n, ast.Assign) and len(n.targets) == 1:
            out.setdefault(src(n.targets[0]), []).append(n.value)
    return out


def resolve(e, asg, depth=0):
    while isinstance(e, ast.Name) and e.id in asg and len(asg[e.id]) == 1 and depth < 5:
        e = asg[e.id][0]
        depth += 1
    return e


def is_call(e, attr, recv=None):
    return isinstance(e, ast.Call) and isinstance(e.func, ast.Attribute) and e.func.attr == attr and \
        (recv is None or src(e.func.value) == recv)



def r067(model, rep, arm):
    """Arm.numericalJacobian probes FK at perturbed joint vectors through a closure that WRITES the arm's state (FK stores joints and
    tool pose).  The arm must be left at the configuration the Jacobian was asked for: either the finite-difference driver ends by
    calling the handle at the unperturbed point, or the method itself calls FK(theta) after the driver.  Otherwise every
    default-argument Jacobian / pose query afterwards is evaluated at the last probe point."""
    from ..engine.paths import paths_of
    rep.rule('R06.7', 'numericalJacobian leaves the arm at the configuration it was evaluated at (the state-writing FK closure is last '
                      'called at the unperturbed joint vector, by the finite-difference driver or by the method)')
    nj = arm.methods.get('numericalJacobian')
    if nj is None:
        raise AnalysisError('anchor vanished: Arm.numericalJacobian')

    def writes_state(body, params):
        return any(isinstance(c, ast.Call) and src(c.func) == 'self.FK' and c.args and isinstance(c.args[0], ast.Name) and c.args[0].id in params
                   for c in ast.walk(body))
    handles = set()
    for st in walk_own(nj.node):
        if isinstance(st, ast.Assign) and len(st.targets) == 1 and isinstance(st.targets[0], ast.Name) and isinstance(st.value, ast.Lambda):
            if writes_state(st.value.body, {a.arg for a in st.value.args.args}):
                handles.add(st.targets[0].id)
    for st in nj.node.body:
        if isinstance(st, ast.FunctionDef) and writes_state(st, {a.arg for a in st.args.args}):
            handles.add(st.name)
    drivers = []
    for st in nj.node.body:
        for c in ast.walk(st):
            if isinstance(c, ast.Call):
                hidx = [k for k, a_ in enumerate(c.args) if (isinstance(a_, ast.Name) and a_.id in handles)
                        or (isinstance(a_, ast.Lambda) and writes_state(a_.body, {x.arg for x in a_.args.args}))]
                if hidx:
                    drivers.append((st, c, hidx[0]))
    rep.ob('R06.7', nj, 'state-writing FK closure handed to a finite-difference driver', bool(drivers),
           'no call that receives a closure over self.FK: the numerical Jacobian is written in a form this rule does not recognise', shape=True)
    n = 0
    for st, c, hk in drivers:
        r = model.resolve_call(nj, c)
        if not r or r[0] != 'func':
            rep.ob('R06.7', nj, src(c.func), False, 'driver %s cannot be resolved' % src(c.func), shape=True, line=c.lineno)
            continue
        drv = r[1]
        n += 1
        hp = drv.params[hk] if hk < len(drv.params) else None

        def unwrap(t):
            e = ast.parse(t, mode='eval').body
            while isinstance(e, ast.Call) and norm_text(e.func).split('.')[-1] in ('asarray', 'copy', 'array', 'asfarray', 'ascontiguousarray') and e.args:
                e = e.args[0]
            return norm_text(e)
        restored_by_driver = None
        paths = [p_ for p_ in paths_of(drv.node, drv.params) if p_.kind == 'return']
        if hp is not None and paths:
            restored_by_driver = True
            for p_ in paths:
                hc = [e for e in p_.events if e[0] == 'call' and e[1] == hp]
                last = hc[-1] if hc else None
                xp = unwrap(last[2][0]) if last is not None and len(last[2]) == 1 else None
                if xp is None or xp not in drv.params or drv.params.index(xp) >= len(c.args):
                    restored_by_driver = False
                    break
                point = src(c.args[drv.params.index(xp)])
        if restored_by_driver:
            rep.ob('R06.7', nj, '%s ends with %s(%s)' % (drv.name, hp, xp), True, 'the driver resets the closure at the unperturbed point `%s`' % point, line=c.lineno)
            continue
        # the driver leaves the closure at a probe point: the method must re-establish FK(point) itself, after the driver call
        xs = [src(a_) for k, a_ in enumerate(c.args) if k != hk and isinstance(a_, ast.Name)]
        later = nj.node.body[nj.node.body.index(st) + 1:]

        def definite_fk(stmts):
            for s_ in stmts:
                if isinstance(s_, (ast.Expr, ast.Assign, ast.Return)):
                    if any(isinstance(x, ast.Call) and src(x.func) == 'self.FK' and x.args and src(x.args[0]) in xs for x in ast.walk(s_)):
                        return True
                elif isinstance(s_, ast.For) and isinstance(s_.iter, ast.Call) and src(s_.iter.func) == 'range' \
                        and src(s_.iter.args[-1] if len(s_.iter.args) < 3 else s_.iter.args[1]) in ('self.num_dof', 'len(%s)' % (xs[0] if xs else '?')):
                    if definite_fk(s_.body):        # num_dof >= 1: the body runs
                        return True
            return False
        rep.ob('R06.7', nj, 'FK(unperturbed joints) after %s' % drv.name, definite_fk(later),
               '%s no longer ends by calling the closure at the unperturbed point, and numericalJacobian does not call FK(%s) after it: the arm '
               'is left at the last probe configuration (joint vector off by the finite-difference step), so jacobianBody() / getEEPos() / '
               'jacobianEETrans() with default arguments are evaluated at the wrong configuration' % (drv.name, xs[0] if xs else 'theta'), line=c.lineno)
    rep.floor('R06.7', 'finite-difference drivers fed a state-writing closure', n, 1)

def statics_table(model, rep, robot, rule):
    """the 2x2 statics table of Robot (shared by C06 R06.3 and C11 R11.4)"""
    def M(ci, name):
        f_ = ci.methods.get(name)
        if f_ is None:
            raise AnalysisError('anchor vanished: %s.%s' % (ci.name, name))
        return f_
    table = (('staticForces', 'jacobian', False), ('staticForcesInv', 'jacobian', True),
             ('staticForcesBody', 'jacobianBody', False), ('staticForcesInvBody', 'jacobianBody', True))
    for name, jac, inverse in table:
        fi = M(robot, name)
        arg = fi.params[1]
        from ..engine import peval as _pe
        flat = _pe.flatten({n_: f_.node for n_, f_ in robot.methods.items()}, fi.node, depth=2, impure=True)
        exprs = [n.value for n in ast.walk(flat) if isinstance(n, (ast.Assign, ast.Return)) and n.value is not None]
        found = None
        for e in exprs:
            for sub in ast.walk(e):
                if isinstance(sub, ast.BinOp) and isinstance(sub.op, ast.MatMult) and src(sub.right) == arg:
                    found = sub
        ok, msg = False, 'no `<matrix> @ %s` expression' % arg
        if found is not None:
            lasg = {}
            for n_ in ast.walk(flat):
                if isinstance(n_, ast.Assign) and len(n_.targets) == 1:
                    lasg.setdefault(src(n_.targets[0]), []).append(n_.value)
            L = resolve(found.left, lasg)
            if inverse:
                inner = L.args[0] if (isinstance(L, ast.Call) and src(L.func) in ('np.linalg.pinv', 'ling.pinv', 'np.linalg.inv') and L.args) else None
                if inner is None:
                    msg = 'inverse statics must apply pinv(J^T); found %s' % src(L)[:60]
                else:
                    cut = pinv_cutoff(L)
                    rep.ob(rule, fi, '%s: pseudo-inverse without truncation' % name, cut is None,
                           'singular values below %s of the largest are discarded: at a configuration where the Jacobian has full rank but a '
                           'condition number above the reciprocal of that cut-off, mapping the torques back does not return the wrench' % cut,
                           line=L.lineno)
                L = resolve(inner, lasg) if inner is not None else None
            if L is not None:
                is_T = isinstance(L, ast.Attribute) and L.attr == 'T'
                base = resolve(L.value, lasg) if is_T else None          # the Jacobian may have been named before it is transposed
                ok = bool(is_T and isinstance(base, ast.Call) and isinstance(base.func, ast.Attribute) and base.func.attr == jac
                          and src(base.func.value) == 'self')
                if not ok:
                    msg = '%s must use self.%s(...).T; found %s' % (name, jac, src(L)[:60])
        rep.ob(rule, fi, '%s: %s(%s(...).T) @ %s' % (name, 'pinv' if inverse else '', jac, arg), ok, msg)


def jacobian_link_rule(model, rep, rule, arm=None):
    """jacobianLink(i, theta) = hstack(Ad(inv(FKLink(theta, i))) @ JacobianSpace(space screws[:, :i+1], theta[:i+1]), zeros) - computed from its
    arguments on every call (shared by C06 R06.2 and C08 R08.2: the mass matrix is the congruence sum over these link Jacobians)."""
    arm = arm or ArmChecker(model).arm
    jl = arm.methods.get('jacobianLink')
    if jl is None:
        raise AnalysisError('anchor vanished: Arm.jacobianLink')
    ip, tp = jl.params[1], jl.params[2]
    # with the class's private helpers inlined (the prefix slices may come from a helper); FKLink stays a call
    from ..engine import peval as _pe2
    jl_flat = _pe2.flatten({n_: f_.node for n_, f_ in arm.methods.items()}, jl.node, depth=2, stop=('_helper_ensure_theta_not_none',), impure=True)
    il = Inliner(jl, node=jl_flat)
    r = il.returns()
    A_ = 'self.FKLink(%s, %s).inv().adjoint()' % (tp, ip)
    J_ = 'fmr.JacobianSpace(self.screw_list[0:6, 0:%s + 1], %s[0:%s + 1])' % (ip, tp, ip)
    Z_ = 'np.zeros((6, len(%s) - (%s + 1)))' % (tp, ip)
    want = ['np.hstack((%s @ %s, %s))' % (A_, J_, Z_), 'np.concatenate((%s @ %s, %s), axis=1)' % (A_, J_, Z_), 'np.c_[%s @ %s, %s]' % (A_, J_, Z_)]
    ok = len(r) == 1 and il.same(r[0].value, want)
    rep.ob(rule, jl, 'Ad(inv(FKLink(theta, i))) @ JacobianSpace(prefix i+1) | zeros', ok,
           'jacobianLink returns %s; expected hstack(Ad(inv(FKLink(theta,i))) @ JacobianSpace(prefix i+1), zero padding)' % (il.text(r[0].value)[:260] if r else '?'))


def body_screw_freshness(model, rep, rule, ck=None):
    """R06.1 (shared with C05): on every path of every public Arm method the body screw list is re-derived after the last write of the home
    pose / the space screws."""
    ck = ck or ArmChecker(model)
    arm = ck.arm
    # ---------------------------------------------------------------- R06.1
    rep.rule(rule, 'body screws re-derived after the last write of home pose / space screws on every path of every public method')
    res, writers = ck.exit_marks('body')
    n = 0
    # which methods reach (through any chain of self-calls) a method that writes the home pose / the space or body screws
    def self_calls(f_):
        return {c.func.attr for c in walk_own(f_.node) if isinstance(c, ast.Call) and isinstance(c.func, ast.Attribute)
                and isinstance(c.func.value, ast.Name) and c.func.value.id == 'self' and c.func.attr in arm.methods}
    MARK = ('_end_effector_home ', '_end_effector_home=', 'self.screw_list ', 'self.screw_list[', 'screw_list_body')
    direct = {f_.name for f_, (_b, _n, own_) in res.items() if any(any(x in src(w) for x in MARK) for w in own_)}
    for name_, f_ in arm.methods.items():
        if any(isinstance(n_, (ast.Assign, ast.AugAssign)) and any(x in src(n_) + ' ' for x in MARK) and any(
                self_field(t_) in ('_end_effector_home', 'screw_list', 'screw_list_body') for t_ in (n_.targets if isinstance(n_, ast.Assign) else [n_.target]))
               for n_ in walk_own(f_.node)):
            direct.add(name_)
    reach = set(direct)
    changed = True
    while changed:
        changed = False
        for name_, f_ in arm.methods.items():
            if name_ not in reach and self_calls(f_) & reach:
                reach.add(name_)
                changed = True
    for fi, (bad, n_exits, own) in sorted(res.items(), key=lambda kv: kv[0].name):
        if not bad and fi.name not in reach:
            continue
        n += 1
        if bad:
            for text, (line, ex) in sorted(bad.items()):
                rep.ob(rule, fi, text, False,
                       'write (line %s) reaches %s with the body screw list not re-derived: jacobianBody() belongs to the previous '
                       'kinematic model' % (line, ex), line=line)
        else:
            rep.ob(rule, fi, 'home/screw writes of %s' % fi.name, True, 'body screws fresh on all %d normal exits' % n_exits)
    rep.floor(rule, 'methods reaching a home/screw write', n, 4)



def check(model, rep):
    rep.extra['explanation'] = (
        'Typestate for the freshness of the body screw list over all histories, plus structural pairing rules: which screw '
        'list feeds which Jacobian kernel, the statics 2x2 sibling table of Robot, the change-of-frame factors of the link / '
        'tool-aligned variants, and index agreement and accumulation counting in the link-mass statics.')
    rep.assumptions.append('JacobianSpace / JacobianBody / Adjoint are as decided under C01/C02')
    ck = ArmChecker(model)
    arm = ck.arm
    robot = model.cls(ROBOT, 'Robot')

    def M(ci, name):
        f = ci.methods.get(name)
        if f is None:
            raise AnalysisError('anchor vanished: %s.%s' % (ci.name, name))
        return f

    body_screw_freshness(model, rep, 'R06.1', ck)

    # ---------------------------------------------------------------- R06.2
    rep.rule('R06.2', 'each Jacobian variant is built from the screw list of its own frame with the documented change of frame')
    from .common_ops import flat_method as _fm62
    from ..engine.paths import paths_of as _paths62

    def kernel_on_table(name, kernel, table, what):
        """every returning path of Arm.<name> hands `kernel` the screw table of its own frame and the joint vector asked for: the argument, or the
        stored joints (a copy of them) on the path where the argument is None"""
        fi_ = M(arm, name)
        th = fi_.params[1]
        flat_ = _fm62(arm, name)
        bad, n_ret = None, 0
        for pth in _paths62(flat_.node, fi_.params):
            if pth.ret in (None, '<none>'):
                continue
            n_ret += 1
            try:
                e_ = ast.parse(pth.ret_src, mode='eval').body
            except SyntaxError:
                bad = pth.ret
                break
            if not (isinstance(e_, ast.Call) and src(e_.func).split('.')[-1] == kernel and len(e_.args) == 2 and not e_.keywords):
                bad = pth.ret
                break
            a0, a1 = src(e_.args[0]).replace(' ', ''), src(e_.args[1]).replace(' ', '')
            # (`theta__was`: the value the parameter had before it was re-bound on this path)
            none_path = any(k_.replace(' ', '').replace('__was', '') in ('%sisNone' % th, '%s==None' % th) and v_ for k_, v_ in pth.facts.items()) or \
                any(k_.replace(' ', '').replace('__was', '') in ('%sisnotNone' % th, '%s!=None' % th) and not v_ for k_, v_ in pth.facts.items())
            STORED = ('self._theta', 'self._theta.copy()', 'np.copy(self._theta)', 'numpy.copy(self._theta)')
            stored = a1 in STORED
            # the choice written as a conditional expression inside the call
            if isinstance(e_.args[1], ast.IfExp):
                t_ = src(e_.args[1].test).replace(' ', '')
                b_, o_ = src(e_.args[1].body).replace(' ', ''), src(e_.args[1].orelse).replace(' ', '')
                if (t_ in ('%sisNone' % th, '%s==None' % th) and b_ in STORED and o_ == th) or \
                        (t_ in ('%sisnotNone' % th, '%s!=None' % th) and o_ in STORED and b_ == th):
                    a1 = th
            if a0 != table or not (a1 == th or (stored and none_path)):
                bad = pth.ret
                break
        rep.ob('R06.2', fi_, '%s(%s, theta)' % (kernel, table), bad is None and n_ret >= 1, '%s: %s' % (what, bad if bad is not None else 'no returning path'))
    kernel_on_table('jacobian', 'JacobianSpace', 'self.screw_list', 'space Jacobian is not built from the space screws')
    kernel_on_table('jacobianBody', 'JacobianBody', 'self.screw_list_body', 'body Jacobian is not built from the BODY screws')
    jacobian_link_rule(model, rep, 'R06.2', arm)
    je = M(arm, 'jacobianEETrans')
    il = Inliner(je)
    r = il.returns()
    ok = False
    got = il.text(r[0].value) if r else '?'
    if len(r) == 1:
        t = il.tree(r[0].value)
        if isinstance(t, ast.BinOp) and isinstance(t.op, ast.MatMult) and norm_text(t.right) == 'self.jacobian(%s)' % je.params[1]:
            left = il.expand(r[0].value.left) if isinstance(r[0].value, ast.BinOp) else il.expand(r[0].value)
            if not isinstance(r[0].value, ast.BinOp):
                ex = il.expand(r[0].value)
                left = ex.left if isinstance(ex, ast.BinOp) else None
            if left is not None and is_call(left, 'adjoint') and is_call(left.func.value, 'inv') and isinstance(left.func.value.func.value, ast.Name):
                lv = left.func.value.func.value.id
                defs_ = [norm_text(d) for d in il.defs(lv)]
                zeroed = any(isinstance(n, ast.Assign) and isinstance(n.targets[0], ast.Subscript) and src(n.targets[0].value) == lv
                             and norm_text(n.targets[0].slice) == '3:6' and norm_text(n.value) in ('np.zeros(3)', 'np.zeros((3))', 'np.zeros((3,1))', '0', '[0,0,0]')
                             for n in walk_own(je.node))
                from_fk = bool(defs_) and all(d in ('self.FK(%s)' % je.params[1], 'self.FK(%s).copy()' % je.params[1]) for d in defs_)
                ok = zeroed and from_fk
    rep.ob('R06.2', je, 'Ad(inv(tool pose, rotation zeroed)) @ jacobian(theta)', ok,
           'tool-aligned Jacobian is not the space Jacobian moved to the translated (unrotated) tool frame: ' + got[:200])
    ve = M(robot, 'velocityAtEndEffector')
    il = Inliner(ve)
    r = il.returns()
    v = il.expand(r[0].value) if len(r) == 1 else None
    ok = isinstance(v, ast.BinOp) and isinstance(v.op, ast.MatMult) and norm_text(v.left).startswith('self.jacobian(') and ve.params[1] in norm_text(v.right) \
        and 'jacobian' not in norm_text(v.right)
    rep.ob('R06.2', ve, 'jacobian(...) @ joint rates', bool(ok), 'tool twist is not jacobian @ rates: ' + (norm_text(v)[:120] if v is not None else '?'))

    # ---------------------------------------------------------------- R06.3
    rep.rule('R06.3', 'statics 2x2 table: forward = J^T @ wrench, inverse = pinv(J^T) @ forces; Body variants use jacobianBody; '
                      'Robot.jacobianBody = Ad(inv(tool pose)) @ jacobian')
    statics_table(model, rep, robot, 'R06.3')
    rjb = M(robot, 'jacobianBody')
    r = returns_of(rjb)
    got_rjb = Inliner(rjb).text(r[0].value, canon=False) if len(r) == 1 else '?'        # temporaries resolved
    ok = got_rjb == 'self._end_effector_pos_global.inv().adjoint()@self.jacobian(*args,**kwargs)'
    rep.ob('R06.3', rjb, 'Ad(inv(tool pose)) @ jacobian', ok, 'generic body Jacobian is %s' % got_rjb)

    # ---------------------------------------------------------------- R06.4
    rep.rule('R06.4', 'link-mass statics: one index i for cg / mass / joint pose / prefix Jacobian, one makeWrench per iteration, '
                      'accumulated; torque i-1 from prefix 0:i')
    lm = M(arm, 'staticForcesWithLinkMasses')
    loops = [n for n in lm.body() if isinstance(n, ast.For)]
    if len(loops) != 1 or not isinstance(loops[0].target, ast.Name):
        raise AnalysisError('staticForcesWithLinkMasses: accumulation loop not recognised')
    lp = loops[0]
    iv = lp.target.id
    asg = {}
    for n in ast.walk(lp):
        if isinstance(n, ast.Assign) and len(n.targets) == 1 and isinstance(n.targets[0], ast.Name):
            asg.setdefault(n.targets[0].id, []).append(n.value)
    mk = [c for c in ast.walk(lp) if is_call(c, 'makeWrench')]

    class Cnt(EventDomain):
        def on_call(s, call, state):
            n_, consts = state
            if is_call(call, 'makeWrench'):
                return ((min(n_ + 1, 2), consts),)
            return (state,)
    ends, brks, exits = Flow(Cnt()).run_loop_body(lp.body, {(0, frozenset())})
    counts = sorted({e[0] for e in ends})
    rep.ob('R06.4', lm, 'weight wrenches per link', counts == [1] and not brks and not exits,
           'makeWrench is evaluated %s times on the paths of one iteration (exactly once per link expected)' % counts, line=lp.lineno)
    if mk:
        c = mk[0]
        il = Inliner(lm)
        th_p = lm.params[2]
        R = {iv: 'I'}
        pos = il.text(c.args[0], roles=R) if c.args else '?'
        mass = il.text(c.args[1], roles=R) if len(c.args) > 1 else '?'
        grav = il.text(c.args[2], roles=R) if len(c.args) > 2 else '?'
        rep.ob('R06.4', lm, 'weight applied at joint_pose[i] @ cg[i]', pos in ('self.getJointTransforms()[I]@self._link_mass_grav_centers[I]', 'self._joint_homes_global[I]@self._link_mass_grav_centers[I]'),
               'application point is %s: joint pose and centre of gravity must carry the same link index' % pos, line=c.lineno)
        rep.ob('R06.4', lm, 'weight magnitude is mass[i]', mass == 'self._link_masses[I]', 'mass is %s' % mass, line=c.lineno)
        rep.ob('R06.4', lm, 'weight direction is the arm gravity', grav == 'self.grav', 'direction argument is %s' % grav, line=c.lineno)
        acc = [n for n in lp.body if isinstance(n, ast.Assign) and isinstance(n.value, ast.BinOp) and isinstance(n.value.op, ast.Add)
               and src(n.targets[0]) == src(n.value.left) and 'makeWrench' in il.text(n.value.right)]
        acc += [n for n in lp.body if isinstance(n, ast.AugAssign) and isinstance(n.op, ast.Add) and isinstance(n.target, ast.Name) and 'makeWrench' in il.text(n.value)]
        rep.ob('R06.4', lm, 'carry wrench accumulates (carry = carry + weight)', len(acc) == 1, 'weights are not accumulated from the tip inward', line=c.lineno)
        carry = src(acc[0].targets[0] if isinstance(acc[0], ast.Assign) else acc[0].target) if acc else None
        st = [n for n in lp.body if isinstance(n, ast.Assign) and isinstance(n.targets[0], ast.Subscript)]
        ok_t = False
        got_t = '?'
        if st and carry:
            R2 = {iv: 'I', carry: 'CARRY'}
            tgt = st[-1].targets[0]
            got_t = '%s <- %s' % (il.text(tgt.slice, roles=R2), il.text(st[-1].value, roles=R2, keep=(carry,)))
            ok_t = il.text(tgt.slice, roles=R2) == 'I-1' and il.text(st[-1].value, roles=R2, keep=(carry,)) in (
                '(self.jacobian(%s)[0:6,0:I].T@CARRY)[-1]' % th_p, '(self.jacobian(%s)[:,0:I].T@CARRY)[-1]' % th_p, '(self.jacobian(%s)[0:6,:I].T@CARRY)[-1]' % th_p)
        rep.ob('R06.4', lm, 'tau[i-1] = last entry of jacobian[0:6, 0:i].T @ carry', ok_t,
               'joint torque i-1 is not taken from the prefix Jacobian 0:i applied to the accumulated wrench (%s)' % got_t, line=lp.lineno)
        rep.ob('R06.4', lm, 'loop from the last link to the first', range_triple(lp.iter) == (('self.num_dof', 0), ('', 0), -1),
               'loop range is %s' % src(lp.iter), line=lp.lineno)
        # initial torques from the tip wrench alone
        ini = [n for n in lm.body() if isinstance(n, ast.Assign) and n.lineno < lp.lineno and isinstance(n.value, ast.BinOp)
               and isinstance(n.value.op, ast.MatMult) and src(n.value.right) == lm.params[1]]
        rep.ob('R06.4', lm, 'tip wrench contributes J^T @ wrench', bool(ini) and il.text(ini[0].value.left) in ('self.jacobian(%s).T' % th_p,),
               'torques are not initialised with jacobian.T @ end-effector wrench')
    from .c02 import closure_obligations
    n = closure_obligations(model, rep, 'R06.5', [arm.methods[m] for m in ('jacobian', 'jacobianBody', 'jacobianLink', 'jacobianEETrans', 'numericalJacobian', 'FKLink', '_helper_refresh_body_screws') if m in arm.methods],
                            'the arm Jacobians (JacobianSpace / JacobianBody / Adjoint)')
    rep.floor('R06.5', 'shared primitives under the arm Jacobians', len(n), 6)
    r067(model, rep, arm)
    r050(model, rep, rule='R06.0')
    rep.rules['R06.0'] = 'np.<attr> used by the arm / robot modules exist (an Arm can be constructed at all)'
    # ---------------------------------------------------------------- R06.8
    from . import memocoh
    rep.rule('R06.8', 'Jacobian / statics methods of Arm and Robot keep nothing between calls that a configuration setter can outdate: every method that '
             'writes a field a kept value was computed from also discards the kept value (def-use closure, shared with R08.7)')
    arm0 = model.cls(ARM, 'Arm')
    allm = memocoh.all_methods(arm0)
    q6 = [fi for name, fi in sorted(allm.items()) if name.startswith(('jacobian', 'staticForces')) or name in ('velocityAtEndEffector',)]
    memocoh.check(rep, 'R06.8', arm0, q6, 'Jacobians / joint torques of an arm whose screws, home poses or base were changed')
    rep.floor('R06.8', 'Jacobian / statics methods scanned', len(q6), 6)
