"""One module per property; each exposes check(model, report)."""
import importlib

ALL = ['C%02d' % i for i in range(1, 21)]


def load(pid):
    try:
        return importlib.import_module('sa.rules.' + pid.lower())
    except ModuleNotFoundError as e:
        from ..engine.model import AnalysisError
        raise AnalysisError('no rule module for %s (%s)' % (pid, e))
