"""Case analysis of the joint-limit clamp (Arm.thetaProtector) - exhaustive over order cells, no execution of repository code.

The clamp touches its data only through order-based operations: comparisons of the joint vector with the limit tables, np.where / boolean
masks, np.any guards, np.clip / np.minimum / np.maximum, copies and slices.  Such a function is piecewise constant on the cells of the
arrangement "joint value versus lower limit versus upper limit versus the numeric constants the code mentions".  The body is therefore
interpreted, element-wise, on one representative per cell: for every cell the returned element must be  lo if theta < lo, hi if theta > hi,
theta otherwise.  np.any over the whole vector is modelled soundly for one element: when the element's own mask entry is False the guard
may still be True because of another joint, so both outcomes are explored.

Anything outside that fragment (arithmetic on the joint values, unknown calls) makes the analysis give up (`unknown`, reported as
"construct not recognised", never as a violation).

Besides the value, the analysis tracks whether the array returned on a clamping path is the argument object itself (clamped in place) or a
new array: callers that keep using their own array after `FK(theta)` rely on the former.
"""
import ast
import itertools

from ..engine.inline import norm_text


class Unknown(Exception):
    pass


def _const_float(e):
    """numeric value of a constant expression made of literals, np.pi / math.pi, + - * / and unary minus; None otherwise"""
    import math
    if isinstance(e, ast.Constant) and isinstance(e.value, (int, float)) and not isinstance(e.value, bool):
        return float(e.value)
    if isinstance(e, ast.Attribute) and norm_text(e) in ('np.pi', 'numpy.pi', 'math.pi'):
        return math.pi
    if isinstance(e, ast.Attribute) and norm_text(e) in ('np.inf', 'numpy.inf', 'math.inf'):
        return math.inf
    if isinstance(e, ast.UnaryOp) and isinstance(e.op, ast.USub):
        v = _const_float(e.operand)
        return None if v is None else -v
    if isinstance(e, ast.BinOp) and isinstance(e.op, (ast.Add, ast.Sub, ast.Mult, ast.Div)):
        a, b = _const_float(e.left), _const_float(e.right)
        if a is None or b is None:
            return None
        try:
            return {ast.Add: a + b, ast.Sub: a - b, ast.Mult: a * b, ast.Div: a / b}[type(e.op)]
        except ZeroDivisionError:
            return None
    return None


class _Arr:
    """one element of an array value; `obj` identifies the array object it lives in"""
    __slots__ = ('v', 'obj')

    def __init__(self, v, obj):
        self.v, self.obj = v, obj


class _Mask:
    __slots__ = ('b',)

    def __init__(self, b):
        self.b = b


class ClampInterp:
    def __init__(self, fn, theta_param, lo_text='self.joint_mins', hi_text='self.joint_maxs'):
        self.fn = fn
        self.tp = theta_param
        self.lo_text, self.hi_text = lo_text, hi_text

    def constants(self):
        out = set()
        for n in ast.walk(self.fn):
            if isinstance(n, (ast.BinOp, ast.UnaryOp, ast.Constant, ast.Attribute)):
                v = _const_float(n)
                if v is not None and v == v and abs(v) != float('inf') and not (isinstance(n, ast.Constant) and n.value in (0, 1) and True):
                    out.add(v)
        return sorted(out)

    # ---- one run
    def run(self, theta, lo, hi, choices):
        self.choices = list(choices)
        self.used = 0
        self.objs = itertools.count(1)
        env = {self.tp: _Arr(theta, 0)}
        self.lo, self.hi = lo, hi
        r = self.block(self.fn.body, env)
        if r is None:
            r = _Arr(float('nan'), -9)          # falls off the end: the caller receives None
        return r, env

    def block(self, stmts, env):
        for st in stmts:
            if isinstance(st, ast.Expr) and isinstance(st.value, ast.Constant):
                continue
            if isinstance(st, ast.Return):
                if st.value is None:
                    raise Unknown('bare return')
                v = self.ev(st.value, env)
                if not isinstance(v, _Arr):
                    raise Unknown('returns a non-array')
                return v
            if isinstance(st, ast.If):
                t = self.truth(self.ev(st.test, env))
                r = self.block(st.body if t else st.orelse, env)
                if r is not None:
                    return r
                continue
            if isinstance(st, ast.Assign) and len(st.targets) == 1:
                t = st.targets[0]
                if isinstance(t, ast.Name):
                    env[t.id] = self.ev(st.value, env)
                    continue
                if isinstance(t, ast.Subscript) and isinstance(t.value, ast.Name) and t.value.id in env and isinstance(env[t.value.id], _Arr):
                    sel = 'all' if isinstance(t.slice, ast.Slice) else self.ev(t.slice, env)
                    val = self.ev(st.value, env)
                    if isinstance(sel, _Mask):
                        if sel.b:
                            if val is None:
                                raise Unknown('store of an empty selection into a non-empty one')
                            env[t.value.id].v = val.v if isinstance(val, _Arr) else float(val)
                        continue
                    if sel == 'all':
                        env[t.value.id].v = val.v if isinstance(val, _Arr) else float(val)
                        continue
                raise Unknown('store %s' % norm_text(t)[:40])
            if isinstance(st, ast.Pass):
                continue
            raise Unknown('statement %s' % type(st).__name__)
        return None

    def truth(self, v):
        if isinstance(v, bool):
            return v
        if isinstance(v, _Mask):
            return v.b
        raise Unknown('test is not a boolean')

    def any_of(self, m):
        """np.any over the vector, seen from one element"""
        if m:
            return True
        if self.used >= len(self.choices):
            self.choices.append(False)
        c = self.choices[self.used]
        self.used += 1
        return c

    def ev(self, e, env):
        c = _const_float(e)
        if c is not None:
            return c
        if isinstance(e, ast.Constant):
            return e.value
        if isinstance(e, ast.Name):
            if e.id in env:
                return env[e.id]
            raise Unknown('name %s' % e.id)
        t = norm_text(e)
        if t == self.lo_text:
            return _Arr(self.lo, -1)
        if t == self.hi_text:
            return _Arr(self.hi, -2)
        if isinstance(e, ast.Subscript):
            base = self.ev(e.value, env)
            if isinstance(e.slice, ast.Slice):
                return _Arr(base.v, base.obj) if isinstance(base, _Arr) else base      # a prefix / full slice: a view, same element
            sel = self.ev(e.slice, env)
            if isinstance(sel, _Mask) and isinstance(base, _Arr):
                return _Arr(base.v, next(self.objs)) if sel.b else None
            raise Unknown('subscript %s' % t[:40])
        if isinstance(e, ast.Compare) and len(e.ops) == 1:
            a, b = self.ev(e.left, env), self.ev(e.comparators[0], env)
            av = a.v if isinstance(a, _Arr) else a
            bv = b.v if isinstance(b, _Arr) else b
            if not isinstance(av, float) or not isinstance(bv, float):
                raise Unknown('comparison %s' % t[:40])
            op = type(e.ops[0])
            r = {ast.Lt: av < bv, ast.LtE: av <= bv, ast.Gt: av > bv, ast.GtE: av >= bv, ast.Eq: av == bv, ast.NotEq: av != bv}.get(op)
            if r is None:
                raise Unknown('comparison operator')
            return _Mask(r) if isinstance(a, _Arr) or isinstance(b, _Arr) else r
        if isinstance(e, ast.BoolOp):
            vs = [self.truth(self.ev(x, env)) for x in e.values]
            return all(vs) if isinstance(e.op, ast.And) else any(vs)
        if isinstance(e, ast.UnaryOp) and isinstance(e.op, ast.Not):
            return not self.truth(self.ev(e.operand, env))
        if isinstance(e, ast.UnaryOp) and isinstance(e.op, ast.Invert):
            v = self.ev(e.operand, env)
            if isinstance(v, _Mask):
                return _Mask(not v.b)
        if isinstance(e, ast.BinOp) and isinstance(e.op, (ast.BitOr, ast.BitAnd)):
            a, b = self.ev(e.left, env), self.ev(e.right, env)
            if isinstance(a, _Mask) and isinstance(b, _Mask):
                return _Mask((a.b or b.b) if isinstance(e.op, ast.BitOr) else (a.b and b.b))
        if isinstance(e, ast.Call):
            fn = norm_text(e.func)
            last = fn.split('.')[-1]
            args = e.args
            if fn == 'len' and len(args) == 1:
                return 'len'
            if last in ('any',) and len(args) == 1 and fn in ('np.any', 'numpy.any', 'any'):
                m = self.ev(args[0], env)
                return self.any_of(self.truth(m))
            if last == 'any' and isinstance(e.func, ast.Attribute) and not args:
                return self.any_of(self.truth(self.ev(e.func.value, env)))
            if last in ('where', 'nonzero', 'flatnonzero') and len(args) == 1:
                m = self.ev(args[0], env)
                if isinstance(m, _Mask):
                    return m
            if last == 'where' and len(args) == 3:
                m, a, b = (self.ev(x, env) for x in args)
                if isinstance(m, _Mask):
                    pick = a if m.b else b
                    return _Arr(pick.v if isinstance(pick, _Arr) else float(pick), next(self.objs))
            if last == 'clip' and fn in ('np.clip', 'numpy.clip') and len(args) == 3 and not e.keywords:
                x, a, b = (self.ev(v, env) for v in args)
                xv, av, bv = (q.v if isinstance(q, _Arr) else q for q in (x, a, b))
                return _Arr(min(max(xv, av), bv), next(self.objs))
            if last == 'clip' and isinstance(e.func, ast.Attribute) and len(args) == 2 and fn not in ('np.clip', 'numpy.clip'):
                x = self.ev(e.func.value, env)
                a, b = (self.ev(v, env) for v in args)
                xv, av, bv = (q.v if isinstance(q, _Arr) else q for q in (x, a, b))
                return _Arr(min(max(xv, av), bv), next(self.objs))
            if last in ('minimum', 'maximum') and len(args) == 2:
                a, b = (self.ev(v, env) for v in args)
                av, bv = (q.v if isinstance(q, _Arr) else q for q in (a, b))
                return _Arr(min(av, bv) if last == 'minimum' else max(av, bv), next(self.objs))
            if fn in ('min', 'max') and len(args) == 2:
                a, b = (self.ev(v, env) for v in args)
                av, bv = (q.v if isinstance(q, _Arr) else q for q in (a, b))
                r = min(av, bv) if fn == 'min' else max(av, bv)
                return _Arr(r, next(self.objs)) if isinstance(a, _Arr) or isinstance(b, _Arr) else r
            if last in ('copy', 'array', 'asarray', 'astype', 'ascontiguousarray', 'flatten', 'ravel', 'reshape', 'squeeze'):
                inner = e.func.value if (isinstance(e.func, ast.Attribute) and norm_text(e.func.value) not in ('np', 'numpy', 'copy')) else (args[0] if args else None)
                if inner is not None:
                    v = self.ev(inner, env)
                    if isinstance(v, _Arr):
                        same = last in ('asarray', 'reshape', 'ravel', 'squeeze', 'ascontiguousarray')      # may be the object itself: keep identity (conservative for callers)
                        return _Arr(v.v, v.obj if same else next(self.objs))
            raise Unknown('call %s' % fn[:40])
        raise Unknown('expression %s' % t[:50])


def analyse(fn, theta_param):
    """-> dict(wrong=[...messages], unknown=str|None, cells=int, fresh_on_clamp=bool)  for the clamp function `fn` (ast.FunctionDef)"""
    ci = ClampInterp(fn, theta_param)
    consts = ci.constants()
    pts = sorted({-1000.0, 0.0, 1000.0} | {c + d for c in consts for d in (-0.5, 0.0, 0.5)})
    wrong, cells, fresh = [], 0, False
    try:
        for lo in pts:
            for hi in pts:
                if hi < lo:
                    continue
                for th in sorted(set(pts) | {lo - 0.25, lo + 0.25, hi - 0.25, hi + 0.25}):
                    want = lo if th < lo else (hi if th > hi else th)
                    stack = [[]]
                    seen = set()
                    while stack:
                        ch = stack.pop()
                        ci2 = ClampInterp(fn, theta_param)
                        r, env = ci2.run(th, lo, hi, ch)
                        key = tuple(ci2.choices[:ci2.used])
                        if key in seen:
                            continue
                        seen.add(key)
                        cells += 1
                        if r.v != want and len(wrong) < 400:
                            wrong.append((want != th, abs(th) + abs(lo) + abs(hi), 'for a joint value %g with limits [%g, %g] (another joint %s) the clamp returns %s instead of %g'
                                          % (th, lo, hi, 'out of range' if any(key) else 'in range', 'None (no return statement is reached)' if r.obj == -9 else '%g' % r.v, want)))
                        if r.v != th and r.obj != 0:
                            fresh = True
                        # explore the other outcome of every np.any that was decided by another joint
                        for i in range(len(key)):
                            alt = list(key[:i]) + [not key[i]]
                            if tuple(alt) not in seen and len(alt) <= 4:
                                stack.append(alt)
    except Unknown as ex:
        return {'wrong': [m_[2] for m_ in sorted(wrong)[:3]], 'unknown': str(ex), 'cells': cells, 'fresh_on_clamp': fresh}
    return {'wrong': [m_[2] for m_ in sorted(wrong)[:3]], 'unknown': None, 'cells': cells, 'fresh_on_clamp': fresh}
