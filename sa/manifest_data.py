"""Per-property MANIFEST rows (single source for tools/gen_manifest.py)."""

ENGINES = [
    {"name": "sa", "path": "/verif/sa", "serves_properties": [],
     "kind_free_text": "repository-specific static analysers on the stdlib ast: resolved program model (E1), "
                       "structured path-sensitive abstract interpreter (E2), NumPy alias table (E3), typestate (E4)"},
]

NOTES = ("Technique family: static analysis only. Every check parses /repo's current working tree on each run and "
         "never imports or executes repository code. Exit 0 = all obligations discharged (known findings listed), "
         "exit 1 + VIOLATION line = a rule instance fails at a named construct, exit 2 + ANALYSIS-ERROR = the analyser "
         "lost an anchor / its self-test failed (never a verdict). VERIF_REPO selects the analysed tree (used by the "
         "self-test on scratch variants). The thorough tier adds the both-ways self-test: seeded fire variants, benign twins and eight behaviour-preserving whole-tree transformations (reformat, rename-locals, extract-temps, invert-if, flip-compare, drop-else, insert-noop, all) on which every check must stay silent. See DESIGN.md (sections 7 and 8).")

CHECKS = {}
NOT_APPLICABLE = []

CHECKS["C03"] = {
    "engine": "sa",
    "technique": "typestate (must) dataflow over all control paths of class tm + whole-repo who-may-write scan",
    "design_ref": "DESIGN.md section 4 C03",
    "text": ("Decides, for every operation history through the class's own writers, the structural invariant behind "
             "TM/TAA coherence: each store to one representation is followed on every path to a normal exit by the "
             "sync that reads it (no stale side, no lost write), the sync functions derive one side only from the "
             "other, and nothing outside class tm writes the payload. A necessary condition of the property; the "
             "numerical inverse-ness of exp/log to 5e-6 is not decided here (see C01/C02). Also (R03.4): every port primitive the sync functions reach has the reference's normal form."
             ' R03.5 also covers the converse direction: a transform that a method of tm builds and hands out (copy()) keeps no array of `self` (NumPy view / copy table: np.asarray of a float array is the array itself).'),
    "note": ("Trusted: NumPy view/copy semantics table (sa/engine/alias.py); objects enter public methods coherent "
             "(proved inductively by the same rule); exceptional exits on invalid inputs are out of scope."),
}

CHECKS["C19"] = {
    "engine": "sa",
    "technique": "path-sensitive must-fact (guard dominance) and path-counting dataflow over Comms (private helpers inlined by AST partial evaluation); case analysis of the poll guard over rule-table states; who-may-write scan",
    "design_ref": "DESIGN.md section 4 C19",
    "text": ("Decides for every rule history and every receive-fault position the structural clauses of exactly-once "
             "delivery: a possibly-None receive never reaches a forward/sink call (dominating not-None fact), registration "
             "methods return True exactly on table-mutating paths, appends/removes are membership-guarded (no duplicate "
             "rules, no clobbered lists), fan-out loops are keyed by the receiving endpoint with exactly one delivery per "
             "element carrying the received value, spin sends each source once to its own endpoint and polls every endpoint "
             "that has an active forwarding rule or sink whatever the state of the other table (guard evaluated for every "
             "combination of key-present / list-non-empty), and only the registration methods write the rule tables."
             " R19.7: an endpoint's getData returns None or a value produced by this very receive on every path; a stored field that is not written on the path (the previous message) is never returned."
             " R19.8: a field of the hub that spin both tests and writes (a latch) has its initial value again on every exit of spin on which it was written."
             ' R19.9: sendData of every endpoint class and of the hub transmits whatever the message is - no path that skips the transmission is selected by a test of the message value (identity tests against None excepted), so falsy payloads such as the empty string of a zero-length datagram are not dropped.'
             ' R19.13: in getData of every endpoint class and of the hub a path that reports nothing-received is selected only by None comparisons of what the transport handed back, never by its truth value / length / content (an empty message is a message). R19.10: openAll / closeAll call openCom / closeCom on every endpoint in every round of the loop (not short-circuited by, or conditional on, what earlier endpoints returned). R19.11: Comms.getCom returns None or the endpoint-table entry stored under its argument (an endpoint is known exactly under its table key, which is what spin and getData go by). R19.9 counts only calls that hand the message on as transmissions (len / isinstance / str of it are inspections). R19.12: CommsObject and its subclasses define no __eq__ / __ne__ / __hash__ - the rule tables\' membership tests and removals rely on identity equality of endpoints.'),
    "note": ("Trusted: endpoints honour the CommsObject interface; real socket behaviour (shutdown on an unconnected UDP "
             "socket etc.) is not modelled."),
}

CHECKS["C12"] = {
    "engine": "sa",
    "technique": "dunder/operator agreement per return branch; changeFrame decided by normal-form equality with the reference frame change (structural formula / ordering typestate as fallback); path summaries of the partially evaluated operators (which payload is combined under which frame facts)",
    "design_ref": "DESIGN.md section 4 C12",
    "text": ("Decides the structural necessary conditions of the wrench/screw laws for all operands: every return branch of "
             "the arithmetic dunders applies that dunder's operator to (self, other) in the implied order (vector-space "
             "laws for scalar/array/object operands); Screw.changeFrame is Ad(inv(new)*old) and Wrench.changeFrame its "
             "transposed dual with the frame recorded on exactly the paths that rewrite the payload and the default old "
             "frame read first; force-at-a-point wrenches are [p x f ; f]; mixed-frame arithmetic converts a copy of the "
             "right operand into the left operand's frame. The numerical identities (A->B->C = A->C to 1e-8) then rest "
             "on the SE(3) algebra decided under C01/C04 and are not themselves decided. Also (R12.5): closure obligations on the primitives under changeFrame; identity-element branches (x + 0, x * 1) are recognised as value-preserving. R12.6: a 6-element array operand of + / - (either side) meets the 6x1 payload as a column (case analysis on isinstance(other, np.ndarray) and len(other) == 6), so (a + b) - b = a holds for array b."
             " R12.7: operator dispatch - when a subclass of Screw overrides a reflected + / -, Python answers `Screw <op> Subclass` with that method first; the Screw-operand branch it reaches (through super() if it delegates) must reconcile the frames, not combine the raw payloads."
             " R12.8: the frame equality behind the `frame == frame` short circuits of changeFrame / + / - (tm.__eq__) has an absolute closeness threshold <= 1e-8 and no larger relative part (allclose / isclose / max-abs / norm forms with constant tolerances), so two different frames are never treated as one beyond the property's bound."
             ' R12.9: Wrench(...) calls inside class Wrench either wrap a value known to be a Screw (whose frame is adopted) or carry self.frame_applied in the frame slot, on every path - a raw payload wrapped without it records the identity frame. R12.10: fsr.transformWrenchFrame re-expresses a copy - no write to the source wrench\'s data or recorded frame (may-write summaries, metadata included), one changeFrame(new frame, old frame) per returning path, applied to what is returned.'),
    "note": "Trusted: globalToLocal(a,b)=inv(a)*b and adjoint() (decided under C01/C04); NumPy broadcasting semantics.",
}

CHECKS["C16"] = {
    "engine": "sa",
    "technique": "path-sensitive must-fact / counting dataflow over one iteration of the growth loop (private helpers inlined by AST partial evaluation), with staleness tracking of derived locals",
    "design_ref": "DESIGN.md section 4 C16",
    "text": ("Decides for all seeds, obstruction sets, callbacks and budgets the structural tree invariants of the RRT* growth "
             "loop: exactly one insertion per iteration (root once), stored cost expression and chosen parent always refer "
             "to the same node, every parent link dominated by a negative collision test on that very pair, the first "
             "parent's distance established inside [min, max] for the current sample (no stale distance), strict-improvement "
             "choose-parent storing the compared cost, only the not-yet-inserted node is ever wired (acyclic by "
             "construction), path extraction by parent walk + goal, and a non-zero divisor in the progress display for "
             "every budget >= 1. Numerical distances and the R-tree's nearest-neighbour answers are not decided. Also: R16.5 strict improvement is decided on must-hold facts at the re-parenting cost store (guard clauses understood); R16.8 the choose-parent scan visits every neighbour the query returned (no break/return, full range). R16.9: the spatial index stores and queries a node at the point box of its own position for each supported dimensionality; a node is inserted without a parent only under the fact that the neighbour query came back empty; the goal is appended to the path unconditionally."
             " R16.6: the path is read positionally (parent walk, append + reverse idiom accepted); setParent does not rewrite the stored cost (the cost is the planner's, measured with the planner's distance)."
             " R16.6 also: generateTree hands generalGenerateTree the planner's own distance and obstruction applied to exactly the two nodes (a pre-filtered obstruction subset is a violation)."
             ' R16.9 accepts copies of the pose (tm(p), p.copy()) and reports any call that rewrites the pose (or the copy the coordinates are read from) between getPosition() and the index call.'
             ' R16.11: RRTStar.distance is the per-call selection between arcDistance (dmode 1) and distance (normal-form equality, with a path-summary fallback), nothing remembered between calls.'
             ' R16.12: PathNode defines no pickling / copying hook - the R-tree hands back unpickled copies, which must carry the bookkeeping the planner assigned. R16.6 also closes setParent\'s effects over node-method calls on ANY receiver (parent.setChild -> previous.removeChild -> child.cost): no stored cost is rewritten behind the growth loop. R16.12 covers tm as well: the node position is pickled inside the node by the R-tree.'),
    "note": "Trusted: purity of caller-supplied callbacks; rtree nearest() (library).",
}

CHECKS["C15"] = {
    "engine": "sa",
    "technique": "schema conformance by exact polynomial normal forms: the guards on the accepting path of the partially evaluated test (helpers inlined, constant loops unrolled) are interpreted into Q[p1,p2,c,h] with |.| atoms and compared with the six separating-axis inequalities",
    "design_ref": "DESIGN.md section 4 C15",
    "text": ("Decides for every segment and every set of boxes that the obstruction test IS the separating-axis test: the "
             "conditions guarding the accepting path are, as exact polynomial normal forms over the segment end points and "
             "the box (centre, half extents), precisely the six negated strict separating-axis inequalities, with the "
             "reject-next-box / accept / default-False control skeleton and (min, max) corner storage. Exactness including "
             "boundary contact then follows from the separating-axis theorem; this is as strong as a static argument gets "
             "here. Floating-point rounding within 1e-9 of contact is not decided. R15.4: each planner owns its obstruction list (fresh list on every constructor path, no mutable default argument or class attribute, only addObstruction writes it), so the boxes tested are the ones registered on that planner."
             " R15.3: addObstruction stores, for each axis, both corner ends (in either order, or as min/max) and appends exactly one box on every path; no registered box is dropped."
             " R15.5: the corners read by the test are the corners registered: the six-vector constructor form of tm stores entries 0..2 of its argument in rows 0..2 (element-flow evaluation, both rpy flags) and nothing it calls rewrites those rows in place; indexing reads the six-vector."
             " R15.5 also: the copy form of the tm constructor gives the copy arrays of its own (node poses built from one template do not share a position buffer)."
             ' R15.6: a node keeps the position it is given - PathNode.__init__ binds self.position to its argument or a copy on every path (tm(argument) would read a 3-sequence as a rotation) and getPosition returns that field.'
             ' R15.4 also reports any method that deletes, pops, clears or overwrites entries of the obstruction list (stated imprecision: an explicit removal API would be reported too).'),
    "note": "Trusted: separating-axis theorem for a segment and an axis-aligned box; NumPy element-wise arithmetic.",
}

CHECKS["C02"] = {
    "engine": "sa",
    "category": "translation_validation",
    "technique": "translation validation by normal form: value-numbered terms of port vs vendored reference under a fixed rewrite set; definite-failure lint; IK flag shape",
    "design_ref": "DESIGN.md section 2.1 E6 and section 4 C02",
    "text": ("For each of the 47 functions shared with modern_robotics 1.1.1 (vendored copy) decides, for all well-typed "
             "inputs at once, that the port computes the same value expression as the reference: both bodies are "
             "normalised (locals forward-substituted, branches -> ite, loops -> canonical dependency-ordered loop terms, "
             "np.r_/np.c_/literal/eye+slice-store assembly -> one block normal form) under the semantics-preserving "
             "rewrites N1..N16 and must be identical; plus API-surface agreement, a definite-failure lint (unbound names, "
             "NumPy attributes absent from the installed NumPy, over-ranked subscripts) and the structural clause of "
             "'reported IK success meets the tolerances'. A behaviour-preserving refactor that needs an equivalence outside "
             "N1..N16 would be reported as DIFFERENT (stated false-alarm exposure; renames, temporaries, reordering of "
             "independent stores, r_/c_ vs slice stores, dot vs @ are covered and part of the benign-twin self-test). "
             "Agreement of compiled floating-point results to 1e-9 is not decided."
             ' The named helpers behind N1 / N2 / N4 / N7 (Norm, SafeTrace, SafeCopy, SafeDot, MatMul, SafeClip) are compared with the definitions the rules assume.'),
    "note": ("Trusted: the vendored reference as the semantics; Numba compiles the accepted NumPy subset with NumPy "
             "semantics; shape contracts in sa/engine/mrspec.py; NumPy type stub as attribute oracle."),
}

CHECKS["C01"] = {
    "engine": "sa",
    "technique": "normal-form (value-numbering) structural rules on the SO(3)/SE(3) primitives + translation validation against the pinned reference",
    "design_ref": "DESIGN.md section 4 C01",
    "text": ("Decides for every input the clauses of the rigid-motion primitives whose truth is in the shape of the code: "
             "hat/vee are mutually inverse (symbolic composition of the two tables - complete for that clause), SE(3)/se(3) "
             "results end in 0 0 0 1 / 0 0 0 0 on every branch, Adjoint/ad/TransInv have the block layouts of the group "
             "structure in [omega; v] order, the logarithm's cases are exhaustive and disjoint with index-consistent "
             "half-turn branches, the exponentials divide by theta only off the near-zero branch, and all 19 primitives "
             "have the same normal form as modern_robotics 1.1.1. The numerical identities log(exp(x)) = x, exp(log(T)) = T, "
             "inv(T)T = I, Ad homomorphism to 5e-6 are NOT decided: they rest on the reference formulas (trusted base)."
             " R01.5: no rigid-motion primitive writes into an array it is given (effects summary through callees and views): the identities are statements about the caller's x, T and w."
             ' The helpers that the rewrite rules read by name (Norm, SafeTrace, SafeCopy, SafeDot, MatMul, SafeClip) are themselves compared with the definition those rules assume (or an equivalent library call), so a changed helper - e.g. a trace that snaps near-identity rotations - is reported at the helper.'),
    "note": "Trusted: modern_robotics 1.1.1 formulas; rewrite set N1..N53; IEEE arithmetic near the 0/pi branch points is not analysed.",
}

CHECKS["C17"] = {
    "engine": "sa",
    "technique": "abstract interpretation with symbolic array extents (affine index ranges vs contracted shapes) + call-site extent unification",
    "design_ref": "DESIGN.md section 4 C17",
    "text": ("Decides the index-safety half of the property for all inputs that satisfy the documented shape contracts: in "
             "each of the 47 @jit kernels every integer subscript and constant slice stays inside the extent of the value "
             "it indexes for every value of the loop counters (affine ranges, exact unrolling of constant-trip loops), and "
             "at every kernel call site of the Python layers the extents made explicit by argument slices agree with the "
             "contract's equalities (this is what finds an i-column view passed with i+1 joint values). 'Compiled equals "
             "interpreted' is not decided (Numba code generation is the trusted base). R17.2 is path-sensitive: a shape environment follows named slices to the kernel call. Per-joint tables of the arm passed whole (extent num_dof) are compared with sliced vectors at kernel call sites."
             " R17.1 also checks kernel-to-kernel call arguments: a slice passed to another kernel (Norm(Vs[3:5])) must have the extent that kernel's contract reads."
             " R17.3: direction of the (screw table, joint vector) contract - the seven kernels taking both are re-analysed with cols(table) = n + slack, slack >= 0: every index must stay in bounds when the table has more columns than the vector has entries (the Python layers pass the whole table with a caller-length vector)."
             ' R17.1 also reports an index whose bound against a contract extent cannot be signed when the smallest admissible size (1 for an extent, 0 for slack) is a witness for which the index lies outside (e.g. a loop over the 6 rows of the screw table indexing the joint vector).'
             ' The length of a float-step np.arange is an extent of its own (NumPy computes it in floating point and documents that it can be one off): a loop counted by it may index only arrays of that same extent.'
             ' R17.4: an explicit @jit signature declares no integer scalar type for a parameter the kernel uses as a value (arithmetic, stored, returned, passed on) - Numba would truncate a real argument silently in the compiled kernel only.'
             ' R17.5: a kernel indexed through a parameter that has no shape contract (an integer offset passed by the caller) is re-analysed at every call in the package with the passed integer (or the default) substituted: every index must stay inside the contracted extent.'),
    "note": "Trusted: shape contracts in sa/engine/mrspec.py (docstrings); Numba code generation; callers not analysed pass arrays that satisfy the contracts.",
}

CHECKS["C05"] = {
    "engine": "sa",
    "technique": "interprocedural typestate over all paths of the Arm class (derived-state coherence), ownership/order rules, call-shape and clamp-dominance rules",
    "design_ref": "DESIGN.md section 4 C05",
    "text": ("Decides for every history over the public Arm methods the structural invariant behind 'reported tool pose = FK of "
             "the stored joints': each write of joint vector / home pose / space screws / tool pose is followed on every path to "
             "a normal exit by the FK re-derivation (self-calls analysed inline with constant propagation); the constructor "
             "neither writes through the caller's screw array nor backs it up after transformation; FK itself is "
             "FKinSpace(home, space screws, clamped theta) storing joints and pose from one vector; None-defaulted joint "
             "arguments are resolved before use; move() re-initialises from the stored original screws and local home; no state "
             "pose object is mutated through an alias; NumPy attributes used exist (an Arm can be built). Equality with the "
             "product of exponentials to 1e-7 is not decided here (kernel: C02). Also: R05.7 the backup used by restoreOriginalEE is refreshed whenever the home tool pose is rewritten for a new base; R05.8 closure obligations on the port primitives FK reaches; the clamp of thetaProtector is decided structurally (each out-of-range side replaced by the bound it violates, guard admits every clamp)."
             " R05.11: pose fields that can come to share one object (the home tool pose and its backup, handed over by plain assignment in restoreOriginalEE) are never mutated in place, only rebound; an in-place writer on either makes a later restore return the changed pose."
             " R05.12: no kernel or helper that an Arm method hands a view of its stored joint vector to (angleMod hands its argument back, reshape is a view) writes into that argument (effects summary of the callee)."
             " R05.12 also covers stores the method itself makes into such a view."
             ' The joint-limit clamp is decided by exhaustive case analysis (sa/rules/clampcase.py): thetaProtector is interpreted element-wise on one representative per order cell of (joint value, lower limit, upper limit, numeric constants in the code) with np.any guards explored both ways; in every cell the result must be the clamp to the stored limits. R05.14: the body screw list is re-derived from the current home pose and space screws after the last write of either (typestate shared with C06 R06.1).'
             ' R05.15: restoreOriginalEE stores the original home tool pose on every path (a skipping path only under equality of the two poses as whole transforms). R05.16: wherever a joint argument defaulting to None is replaced from the stored joint vector, the replacement is that vector itself (copy / reshape / angle wrap only), also through a resolving helper that hands its argument back. R05.17: the backup home tool pose (_original_end_effector_home) is read only by restoreOriginalEE (state dumps and comparisons aside): no pose query computes with it.'
             ' R05.18: the same memo-coherence rule over FK / FKLink / FKJoint / getEEPos / getJointTransforms.'),
    "note": "Trusted: FKinSpace (C02); parameters documented as transforms are transforms; num_dof >= 1.",
}

CHECKS["C06"] = {
    "engine": "sa",
    "technique": "typestate for derived-field freshness (body screws) + structural pairing rules (kernel/screw-list roles, statics sibling table, index agreement, accumulation counting)",
    "design_ref": "DESIGN.md section 4 C06",
    "text": ("Decides the structural necessary conditions of 'the Jacobians belong to the current kinematic model and statics is "
             "the transpose map': the body screw list is re-derived after every write of home pose / space screws on all paths "
             "of all public methods (so a tool change or move can never leave a self-consistent Jacobian of another model); "
             "each variant pairs the right screw list with the right kernel and change of frame; the four statics methods form "
             "the (space|body)x(forward|inverse) table with J^T and pinv(J^T); link-mass statics adds exactly one weight per "
             "link with one index for cg/mass/pose/prefix Jacobian. Derivative-of-FK equalities are not decided. Also (R06.5): the Jacobian primitives reached from the arm have the reference's normal form."
             " R06.7: numericalJacobian leaves the arm at the configuration it was evaluated at: the state-writing FK closure is last called at the unperturbed joint vector, by the finite-difference driver (path summaries of the driver) or by the method after the driver."
             ' R06.8: memo coherence (rule function shared with R08.7) over the jacobian* / staticForces* methods of Arm and Robot: a field such a method stores and can read back from an earlier call must be discarded by every method that writes a field it was computed from.'),
    "note": "Trusted: JacobianSpace/JacobianBody/Adjoint (C01/C02). The length contract of _link_masses (n+1, index 0 = base link, as the URDF loader produces) is an input contract, not checked.",
}

CHECKS["C07"] = {
    "engine": "sa",
    "technique": "normal-form analysis of the IK kernels (flag/loop/twist-half roles), role agreement at call sites, path-sensitive write-back facts, sibling conformance by normal-form equality",
    "design_ref": "DESIGN.md section 4 C07",
    "text": ("Decides the structural clauses of 'IK never claims a pose it has not reached' for all goals, starts and tolerance "
             "settings: in all three Newton kernels the success flag is `not err` of the very loop that produced the returned "
             "joints, err is computed from the joints as updated and clamped in that iteration, the angular half of the error "
             "twist meets the orientation tolerance and the linear half the position tolerance (also at the Arm call sites, "
             "with screws/home/goal/limits bound by role); the clamp block covers every joint with both bounds between update "
             "and error recomputation; IK/constrainedIK can return success only after FK(returned joints) wrote the state and "
             "leave the state coherent on every exit; the limit-respecting kernel minus its clamp equals IKinSpace (which equals "
             "the reference). Local convergence and 'unreachable => error above tolerance' are numerical and not decided. Also: R07.6 (effects summary) no IK kernel writes the storage of the start vector it is given, so a failed solve cannot move the arm's stored joints; R07.7 closure obligations on the primitives the solvers reach."
             " R07.8: on the success path of IKFree the pose compared with the goal is FK of the joint vector that is returned (not the solver's residual of a clamped evaluation). R07.9: the limit-respecting kernel clamps the start vector before its first error evaluation (or every caller hands it a vector drawn inside the limits), so a solve that stops at iteration 0 cannot return joints outside the limits."
             " R07.10: Arm.FK, through which every solver exit writes the state, stores the joint vector it evaluated (the clamped one when it clamps) together with the pose of that vector."
             ' R07.10 includes the clamp case analysis. R07.11: a method that returns the array it handed to self.FK(...) (IKFree) relies on the clamp working in place - the case analysis also tracks whether the array returned on a clamping path is the argument object. R07.12: Arm methods that solve through self.IK / constrainedIK / IKFree (move with a stationary tool) leave the solver\'s state: no store to joints / tool pose / home / screws after the solve reaches an exit without FK. R07.13: the angle wrap the solvers\' answers pass through (fsr.angleMod and its siblings) replaces an angle by its remainder modulo 2*pi only (rule function shared with C18 R18.2).'),
    "note": "Trusted: FKinSpace/JacobianSpace/MatrixLog6/Adjoint (C01/C02); documented parameter roles.",
}

CHECKS["C08"] = {
    "engine": "sa",
    "technique": "translation validation (normal forms) of the dynamics functions + structural zero-pattern / congruence-sum / call-contract rules",
    "design_ref": "DESIGN.md section 4 C08",
    "text": ("Decides the structural part of dynamics consistency for all chains and states: the Newton-Euler recursion, the nine "
             "functions derived from it and the primitives they call have the normal form of modern_robotics 1.1.1; mass matrix, "
             "velocity-product, gravity and tip-force terms select exactly the documented zero patterns of the one recursion (so "
             "tau = M qdd + c + g + J^T F holds by linearity of that recursion); ForwardDynamics is inv(M)(tau - c - g - J^T F); "
             "Arm.massMatrix is literally a sum of congruences J_i^T G_i J_i (symmetric PSD by construction); the arm-level "
             "wrappers call the kernels with arguments in role order, 1-D tip loads and matching return arity. Symmetry / "
             "definiteness as numbers, FD o ID = id, energy conservation and agreement of Arm.inverseDynamics/inverseDynamicsC "
             "with the recursion are numerical identities and are NOT decided. Also (R08.4): dependence conformance inside Arm.inverseDynamics - the base step carries (0,0,0,-g) through an operator that reads the same model inputs (joint value, screw, link frames) as the general step's propagation operator."
             ' R08.7: memo coherence - a field a dynamics method of Arm both stores and reads (a value kept between calls) must be discarded by every method of Arm / Robot that writes a field the kept value was computed from (def-use closure through the locals of the method and through self-calls); no kept fields = no obligations.'
             ' R08.2 also holds jacobianLink to its definition hstack(Ad(inv(FKLink(theta, i))) @ JacobianSpace(prefix i + 1), zeros), computed from the arguments of the call (rule shared with C06).'),
    "note": "Trusted: modern_robotics 1.1.1 recursion as the physics reference; rewrite set N1..N53.",
}

CHECKS["C14"] = {
    "engine": "sa",
    "technique": "flow-sensitive may-alias / may-write (effects) analysis with interprocedural summaries and a NumPy view/copy transfer table",
    "design_ref": "DESIGN.md section 4 C14",
    "text": ("Decides value semantics for every operand and every later mutation at once, as an effects property of the code: for "
             "the 160+ functions in the property's scope (operators, inverse, copies, get-accessors of tm/Screw/Wrench/Twist; "
             "frame-conversion/distance/midpoint/gap-closing/path helpers; Arm and SP constructors; every function of the MR "
             "port) the set of parameters whose storage may be written is within the documented in-place targets; the payload "
             "returned by operators/copies/accessors has no origin in an operand (no shared storage); mutable constructor "
             "defaults never become payload. This is a may-analysis: it can only err towards reporting, and unknown external "
             "callees are assumed read-only (stated)."
             " R14.4: an array parameter a robot method hands to a ported Modern Robotics function is not altered by that method afterwards, directly or through the "
             "function's result (result -> argument aliases of the callee summaries, threaded through tuple unpacking; documented joint clamping excepted): a solver that "
             "returns its start vector unchanged on a path would make the caller's in-place angle wrapping a write to the user's array."),
    "note": "Trusted: NumPy view/copy semantics table (sa/engine/alias.py); external callees (NumPy/SciPy) do not write their arguments.",
}

CHECKS["C18"] = {
    "engine": "sa",
    "technique": "exact polynomial identities (E9), constant folding of sibling implementations, Lie-kind typing of call sites (E7), structural count/spacing/index rules",
    "design_ref": "DESIGN.md section 4 C18",
    "text": ("Decides the defining relations of the helpers that are visible in the shape of the code: the plane through three "
             "points contains them (polynomial identity) and mirror consumes that plane with the same sign convention, |n|^2 and "
             "p+2kn over the frame's local XY plane - so planes NOT through the origin are handled; every angle-wrapping "
             "sibling wraps at and modulo 2*pi; exp/log/hat/vee are only applied to values of the kind they are defined on "
             "(log of a rotation, never of a scaled rotation); IKPath has steps poses, evenly spaced, ending at the goal; "
             "gap closing advances by delta along the unit direction; the midpoint is mean position + exp(log(R2 R1^T)/2)R1; "
             "sphere samplers satisfy x^2+y^2+z^2 = 1 identically; chainJacobian follows the JacobianSpace recurrence; lookAt "
             "builds a right-handed frame. Geodesic/metric relations as numbers and the optimiser-based helper are not decided. Helper formulas (IKPath, closeLinearGap, midpoint, lookAt, chainJacobian, tripleUnit) are decided by normal-form equality with reference implementations written from the definitions; R18.7 closure obligations."
             " R18.2 also bounds the in-place stores of tm.angleMod to the rotation rows 3..5 of the six-vector. R18.4 decides lookAt structurally when it is not written like the reference: on every returning path the result is tm(M) with the position kept, z = unit(target - position), y = z x x and x a unit vector orthogonal to z (unit(u x z), or a constant unit vector orthogonal to u only under a fact that |u x z| vanishes)."
             ' R18.9 accepts any common displacement of the two probes (the step parameter or one expression used on both sides) and requires the quotient to divide by twice that very displacement.'
             ' R18.4 also holds closeArcGap to its reference form: origin @ TAAtoTM(unit six-vector of (goal - origin) * delta), normalised by the 6-norm of that difference. R18.9 resolves named (half) steps inside the divisor. R18.2 also requires that what replaces an angle is its remainder itself (a % m, np.mod, np.remainder, fmod, or a selection between that and the angle), not a function of it. R18.11: each of the 31 deprecated aliases of faser_general forwards its parameters, each in its own position, to the helper it announces.'
             ' R18.10: no helper of faser_general / basic_helpers that returns an array, list or transform carries a memoising decorator (lru_cache, cache, ...): results are fresh objects on every call.'),
    "note": "Trusted: exp/log primitives (C01); NumPy element-wise semantics.",
}

CHECKS["C04"] = {
    "engine": "sa",
    "technique": "coverage (non-interference) analysis of constructor forms, dunder/operator agreement, accessor pairing, structural formula check of the frame-conversion kernels",
    "design_ref": "DESIGN.md section 4 C04",
    "text": ("Decides the structural necessary conditions of 'every constructor form means the same pose and the algebra is SE(3)': "
             "each constructor form reads exactly the elements of its description, one-to-one into the slot of the same "
             "position (an element never read cannot influence the pose), lengths dispatch to the matching form with the rpy "
             "flag forwarded; `@`/reflected `@` multiply the 4x4 matrices in operand order and the other dunders apply their own "
             "operator; inv() is TransInv; the quaternion getter/setter use one convention on one block and re-sync; "
             "LocalToGlobal/GlobalToLocal are literally ref*rel and inv(ref)*rel in rotation-vector form and the wrappers pass "
             "(reference, rel) in order. Associativity, inverse laws and cross-form equality to 5e-6 are numerical and not decided. Also (R04.5): every compiled primitive reachable from the constructor sync, inv and the frame-conversion helpers has the normal form of the pinned reference (closure obligations), so a defect in exp/log breaks this property's check too."
             " R04.1 also: nothing a constructor form calls on self rewrites the translation rows of the six-vector in place (in-place stores of mutators such as angleMod are bounded to rows 3..5)."
             " R04.6: the constructor forms give the new transform arrays of its own (TM / TAA are never views of the argument, by the NumPy view / copy table; the reference-keeping setters are not handed an argument)."
             " R04.7: no method of tm stores a computed value in place into a local array whose dtype follows the caller's argument (np.array(x) / reshape / copy without a float dtype), so integer descriptions build the same transform as float ones; element-flow values that an in-place store makes unknown give no verdict (exit 2) instead of a comparison."
             ' R04.2 judges the localToGlobal / globalToLocal wrappers per returning path: the kernel call with (reference, rel) in order, or a shortcut handing back a copy of one operand on a path that establishes that the OTHER operand is the identity through its whole six-vector (Norm6 / all elements - not mr.Norm, the 3-vector norm).'
             ' R04.8: the two sync functions every constructor form ends in are held to their definitions on all paths (TMtoTAA = [p; vee(log(R))] for every rotation - no shortcut branch); the rule function of C03 R03.2 run under this property.'),
    "note": "Trusted: exp/log/TransInv (C01/C02); scipy Rotation default quaternion convention.",
}

CHECKS["C20"] = {
    "engine": "sa",
    "technique": "path-counting and guard-dominance dataflow over disp/dispa (private helpers inlined, copies propagated); dispatch exhaustiveness; data-flow of the formatted text into the result",
    "design_ref": "DESIGN.md section 4 C20",
    "text": ("Decides for arrays of every shape the structural half of 'disp shows every element': disp prints exactly the string "
             "it returns (once, unless noprint); in each dimension branch exactly one rendering per element / sub-array is "
             "produced and appended per index of range(shape[0]) on every path, with width nd+6, precision nd below 9999 and nd "
             "forwarded through the <=4-D recursion; the dims dispatch is exhaustive; probes that raise on 0-d / shapeless "
             "objects sit inside the catch-all fallback; round() is only reached for finite |x| >= 9999. Exception freedom for "
             "arbitrary Python objects (dynamic __str__/__format__) is NOT decided. The formatted value must be the array element itself on every path (alias-aware); locals are identified by role. R20.6: in the renderer for lists of transforms / wrenches every integer conversion of an entry is dominated by abs(x) >= 9999 and not isinf(x), so NaN and infinite entries are rendered instead of raising."
             " R20.1 is path-based: on every path of disp the renderer receives the parameters themselves (matrix, nd, ...) or a view/reshape of them, never a value-modified copy."
             " R20.7: the payload of a Screw / Wrench is stored as a 6x1 column on every path of Screw.__init__ (reshape to (6,1), a (6,1) zero column, or the argument itself only under the fact shape == (6,1)): disp indexes wrenches over that grid."
             " R20.8: indexing a transform returns the entry of its six-vector unchanged (lists of transforms are rendered cell by cell through tm.__getitem__)."
             ' R20.2 for arrays of 2 and more dimensions is decided by case analysis: the body of dispa is specialised to ndim = 2..5 and shape[0] = 0..4 (constants propagated, constant tests folded, loops unrolled) and on every remaining path the recursive renderings must be rows 0..shape[0]-1 once each, in order - however the loop over the first axis is written; an unconditional read of row 0 of an empty table is reported as such.'
             ' R20.9: every whole store of self.TAA in class tm is a 6x1 column by construction or is followed by TAAtoTM() (which reshapes it) on every path, so tm.__getitem__ - through which lists of transforms are rendered - never meets a flat six-vector. R20.10: an integer index of a tm / Screw returns the payload element itself (an array scalar, or float of it), on which printTFlist can call round() - not an ndarray made from it.'),
    "note": "Trusted: Python string formatting of finite floats; the stated input kinds.",
}

CHECKS["C13"] = {
    "engine": "sa",
    "technique": "definite-assignment (must) dataflow over the joint parser, guard dominance, ordered composition pattern, path counting of the chain-walk bookkeeping",
    "design_ref": "DESIGN.md section 4 C13",
    "text": ("Decides for all URDF files the structural clauses of the loader: every joint leaves the parser with a non-None axis and "
             "origin on every path (absent optional children => URDF defaults), absent xyz/rpy attributes become zeros before "
             "use; the joint origin is composed as translate(xyz) Rz(yaw) Ry(pitch) Rx(roll) with each value in its slot; every "
             "moving joint contributes exactly one name, one lower and one upper limit (its own), one column of each table at "
             "the running index which then advances by one, while links/fixed joints contribute none and fixed joints are folded "
             "into the running pose; screws are [axis; point x axis] with the axis rotated by the accumulated pose; the arm is "
             "built at the identity base with the last accumulated pose as tool home. FK equality with the file's semantics to "
             "1e-6 is numerical and not decided. The pose bookkeeping of the chain walk is decided by a symbolic pose walk (products of origins on every path of one iteration, with an inferred loop invariant); locals are identified by role, not by name."
             " R13.5: Arm.FK evaluates the loaded chain at the joint vector it is given or at its clamp to the limits only (no folding of in-limit joint values before the product of exponentials)."
             ' R13.6: every Modern-Robotics primitive in the callee closure of the loader, class tm and Arm.FK (exp / log of rotations that the accumulated joint poses go through) has the normal form of the pinned reference.'
             " R13.5 includes the clamp case analysis: joint values inside the file's limits reach the product of exponentials unchanged, whatever their magnitude."
             ' R13.7: Arm.setJointProperties stores the limits it is given unchanged (value-preserving wrappers only), so the loaded arm reports and clamps against the limits written in the file. R13.8: on the load path the poses that become the home tool matrix are composed as matrices (A @ B, tm(matrix)), never through localToGlobal / globalToLocal, whose exp(log(.)) rebuild is only accurate to ~1e-5 near a half turn (rpy 3.14159). R13.9: the angle wrap Arm.FK applies to the joint vector replaces an angle by its remainder modulo 2*pi only (shared with C18 R18.2): joint values beyond one turn, which URDF limits allow, stay congruent.'),
    "note": "Trusted: ElementTree parsing; tm composition (C04); the chain is strictly serial (as the property states).",
}

CHECKS["C09"] = {
    "engine": "sa",
    "technique": "structural sibling-symmetry rules on the IK kernel + value-numbering typestate (table freshness, FK write-back)",
    "design_ref": "DESIGN.md section 4 C09",
    "text": ("Decides the structural clauses of 'IK is exact geometry and FK inverts it' for all geometries and poses: the IK kernel "
             "applies each plate's own transform to its own plate-fixed joint column and takes the norm of the difference with one "
             "leg index over six legs (=> lengths depend only on the relative pose, by construction of T@[v;1]); its wrapper binds "
             "poses, local joint tables and buffers by role; the FK joint tables are re-derived whenever the plate-fixed joints are "
             "replaced (re-spun platforms solve FK for their own geometry); FK/IK/move/spinCustom end with derived state computed "
             "from exactly the stored poses, so lengths reported after FK are recomputed geometry. Convergence of the solvers to "
             "1e-3 is numerical and not decided. R09.2 discovers class-wide every instance field that caches a function of the plate-fixed joint tables (by data dependence) and requires every writer of the tables to refresh or reset each of them on every path; kernel formulas are decided by normal-form equality with a reference implementation written from the definition. R09.5: in the Newton FK kernel the height floor applied to the iterate is at most leg_ext_min/2 (a higher floor excludes poses of flat platforms), the residual driven to zero is squared joint distance minus squared requested length, and the top joints are rotated by the current guess."
             " R09.6: the leg lengths _IKHelper hands back are a snapshot (copy) of self.lengths, so the corrective action on the stored lengths cannot rewrite the vector already returned to the caller."
             " R09.7: no array object is bound both to a plate-fixed joint table and to a space-joint buffer that the IK kernel writes in place."
             ' R09.8: move(new base) - the pose expression handed to IK is evaluated as a word in the free group over the poses involved (A @ B, inv, localToGlobal = a*b, globalToLocal = inv(a)*b, getters read in place, fields versioned along every branch) and must be new_base * inv(old base) * old top, solved against the new base.'
             ' R09.9: SP.FK runs a forward-kinematics solver on every returning path (a shortcut only for lengths exactly equal to the stored ones). R09.10: no function of the platform module exchanges rows of a rank >= 2 array through a tuple assignment of views (both rows would end up equal - one joint pattern on both plates).'),
    "note": "Trusted: convergence of SPFKinSpaceR's Newton iteration and its Jacobian (not analysed numerically); the bound leg_ext_min/2 on the height floor is taken from the kernel as exercised; tokens name one pose value per path.",
}

CHECKS["C10"] = {
    "engine": "sa",
    "technique": "interprocedural value-numbering typestate over all paths of class SP with constant propagation; ownership table; structural validation-chain rules; abstract call-tree recursion check",
    "design_ref": "DESIGN.md section 4 C10",
    "text": ("Decides for every operation history the structural invariant behind coherence: every public method maps a platform "
             "whose joint positions / leg lengths / relative transform were computed by the one IK helper from exactly the stored "
             "plate poses to such a platform again on every path (2500+ abstract exit states, corrective paths included); only the "
             "listed writers touch derived state; each validator consults its own switch and constraint, never upgrades a False, "
             "corrects only when allowed and re-validates deep enough; pure queries end with the poses they started with; no helper "
             "can re-enter itself with unchanged constant arguments (every call returns). That the constraint predicates compute "
             "the right geometry is not decided. R10.7: the validity FK / IK return was evaluated for the state they leave: after the validate() whose verdict is returned the platform is moved only by a validating call or by one rigid motion of both plates through the current relative transform."
             " R10.8: _IKHelper runs the IK kernel on every returning path (no solve remembered across calls)."
             ' R10.6 reports a stroke-limit test applied to a function of the leg lengths (rounded, offset) instead of the lengths themselves.'),
    "note": "Trusted: external solvers only call the closure they are given; a token names one pose value along a path.",
}

CHECKS["C11"] = {
    "engine": "sa",
    "technique": "normal-form equality of the inverse-Jacobian row construction with the reference written in the rule (private helpers inlined); wrench sums classified term by term on the path summaries of the partially evaluated methods (helpers inlined, six-leg loops unrolled); routing rules",
    "design_ref": "DESIGN.md section 4 C11",
    "text": ("Decides the structural necessary conditions of the Stewart Jacobian / statics clauses: inverse-Jacobian rows are the "
             "Plucker coordinates [q_i x n_i ; n_i] of leg i (moment first, matching [omega; v] and [moment; force]) with bottom "
             "joint and unit direction of the same leg, evaluated between a save and a restore of the poses; the wrench summation "
             "uses point, direction and magnitude of the same leg; the load handed to the static solve in carryMassCalc is exactly "
             "applied wrench + top plate weight + six shaft weights, motors and bottom plate only afterwards; Robot derives "
             "jacobian() as pinv(inverseJacobian()). Derivative and equilibrium identities are numerical and not decided."
             " R11.4: the statics table of Robot (staticForces / staticForcesBody / their inverses) is decided in this check too: each entry is the transposed (space / body) Jacobian or its pseudo-inverse applied to the wrench payload, without a frame change of the argument."
             " R11.5: getActuatorLoc(i, 't'/'b') is getUnitVec(own joint of leg i, other joint of leg i, configured offset) with the offset the configured constant itself (never a function of the current leg length), and getUnitVec is first point + unit(second - first) * distance (reference comparison)."
             " R11.6: every path of the four statics methods of Robot records the forces it worked with in self._last_tau, whatever optional arguments it was called with (sumActuatorWrenches() and the other force queries default to it)."
             " R11.2: constant-trip loops containing `continue` are lowered to branches before unrolling; a leg left out exactly when its force is zero counts as contributed, any other condition under which a leg's wrench is skipped is reported with that condition."
             ' R11.7: the leg wrenches are forces at points for every magnitude - makeWrench / Wrench construction held to [p x f ; f] on all paths (rule function of C12 R12.3 run under this property). R11.8: backward def-use flow (sa/rules/roleflow.py) from the fields the mass-carrying statics reads, through the setters and newSP, to the definition entries read by loadSP: <C>Mass entries reach the mass field and <C>COGD entries (or lengths inferred from the extensions) the centre-of-gravity field of the SAME component, on every loader path.'
             ' R11.9: memo coherence (rule function shared with R08.7 / R06.8) over the inverseJacobian* / jacobian* / staticForces* / carryMassCalc* methods of SP: a field such a method stores and can read back from an earlier call must be discarded by every method that writes a field it was computed from; a keyed memo is covered only for what its key compares.'),
    "note": "Trusted: makeWrench / Wrench layout (C12); Robot statics table (C06).",
}

_PENDING = "rule module not yet built in this round (see DESIGN.md section 4 for the planned static rules)"
for _i in range(1, 21):
    _p = "C%02d" % _i
    if _p not in CHECKS:
        NOT_APPLICABLE.append({"property_id": _p, "reason": _PENDING})

for _e in ENGINES:
    _e["serves_properties"] = sorted(CHECKS)
