"""Run every quick check against one tree in parallel (development aid).  usage: all_checks.py <tree> [--tier quick]"""
import os, subprocess, sys
from concurrent.futures import ThreadPoolExecutor
tree = sys.argv[1]
VERIF = os.path.dirname(os.path.dirname(os.path.abspath(__file__)))
env = dict(os.environ, VERIF_REPO=tree, VERIF_NO_EVIDENCE='1', PYTHONDONTWRITEBYTECODE='1')


def one(pid):
    p = subprocess.run(['/venv/bin/python', '-m', 'sa.check', pid, '--tier', 'quick'], cwd=VERIF, env=env, capture_output=True, text=True)
    return pid, p.returncode, [l[:300] for l in (p.stdout + p.stderr).splitlines() if l.startswith(('FINDING', 'ANALYSIS-ERROR'))]


bad = 0
with ThreadPoolExecutor(16) as ex:
    for pid, rc, lines in ex.map(one, ['C%02d' % i for i in range(1, 21)]):
        if rc:
            bad += 1
            print(pid, 'exit', rc)
            for l in lines[:6]:
                print('   ', l)
print('disturbed:', bad)
