"""Benign-refactor robustness test of the checkers (no repository code is executed).

Applies a behaviour-preserving source transformation to a scratch copy of /repo's python sources and runs all quick checks
against it.  Every VIOLATION / ANALYSIS-ERROR reported on such a tree is a brittleness of the rule (a false alarm in waiting).

usage: benign_fuzz.py <mode> [--only path-substring] [--func qualname-substring] [--checks C05,C13] [--keep]
modes:
  reformat        ast.unparse(ast.parse(file)): drops comments, normalises quotes / parentheses / line breaks, moves every line
  rename-locals   every local variable (not parameter) of every function is renamed  name -> name_r
  extract-temps   in every simple statement, call-valued call arguments are hoisted into fresh temporaries
"""
import ast, os, shutil, subprocess, sys, tempfile, builtins

VERIF = os.path.dirname(os.path.dirname(os.path.abspath(__file__)))
REPO = os.environ.get('VERIF_REPO', '/repo')


def opt(flag, default=None):
    return sys.argv[sys.argv.index(flag) + 1] if flag in sys.argv else default


sys.path.insert(0, VERIF)
from sa.selftests.benign import transform  # noqa: E402


def main():
    mode = sys.argv[1]
    only = opt('--only')
    func = opt('--func')
    checks = (opt('--checks') or ','.join('C%02d' % i for i in range(1, 21))).split(',')
    d = tempfile.mkdtemp(prefix='vsa_benign_')
    try:
        n_files = 0
        for dirpath, dirnames, filenames in os.walk(os.path.join(REPO, 'basic_robotics')):
            dirnames[:] = [x for x in dirnames if x != '__pycache__']
            rel = os.path.relpath(dirpath, REPO)
            os.makedirs(os.path.join(d, rel), exist_ok=True)
            for fn in filenames:
                if not fn.endswith('.py'):
                    continue
                p = os.path.join(dirpath, fn)
                text = open(p, encoding='utf-8').read()
                if only is None or only in os.path.join(rel, fn):
                    try:
                        text = transform(text, mode, func)
                        n_files += 1
                    except SyntaxError as e:
                        print('skip %s: %s' % (fn, e))
                open(os.path.join(d, rel, fn), 'w', encoding='utf-8').write(text)
        print('%s: %d files transformed in %s' % (mode, n_files, d))
        env = dict(os.environ, VERIF_REPO=d, VERIF_NO_EVIDENCE='1', PYTHONDONTWRITEBYTECODE='1')
        bad = 0
        for pid in checks:
            p = subprocess.run(['/venv/bin/python', '-m', 'sa.check', pid, '--tier', 'quick'], cwd=VERIF, env=env, capture_output=True, text=True)
            lines = [l for l in (p.stdout + p.stderr).splitlines() if l.startswith(('FINDING', 'ANALYSIS-ERROR'))]
            if p.returncode != 0:
                bad += 1
                print('%s exit %d' % (pid, p.returncode))
                for l in lines[:12]:
                    print('   ' + l[:330])
            else:
                print('%s ok' % pid)
        print('%d of %d checks disturbed by the benign transformation `%s`' % (bad, len(checks), mode))
        return 1 if bad else 0
    finally:
        if '--keep' not in sys.argv:
            shutil.rmtree(d, ignore_errors=True)


if __name__ == '__main__':
    sys.exit(main())
