"""Re-confirm every kept seed against the CURRENT /repo HEAD (development aid; run after a fix: commit lands):
for each /verif/seeded/<name>: scratch copy of /repo, the patch must apply, demo.py must exit non-zero on the patched copy.
usage: recheck_seeds.py [--jobs N] [name ...]"""
import concurrent.futures as cf, json, os, shutil, subprocess, sys, tempfile
VERIF = os.path.dirname(os.path.dirname(os.path.abspath(__file__)))
names = [a for a in sys.argv[1:] if not a.startswith('--') and not a.isdigit()] or sorted(os.listdir(os.path.join(VERIF, 'seeded')))
jobs = int(sys.argv[sys.argv.index('--jobs') + 1]) if '--jobs' in sys.argv else 4


def one(nm):
    d = tempfile.mkdtemp(prefix='reseed_%s_' % nm)
    try:
        shutil.copytree('/repo/basic_robotics', os.path.join(d, 'basic_robotics'), ignore=shutil.ignore_patterns('__pycache__'))
        shutil.copytree('/repo/tests', os.path.join(d, 'tests'), ignore=shutil.ignore_patterns('__pycache__'))
        p = subprocess.run(['git', 'apply', '--whitespace=nowarn', os.path.join(VERIF, 'seeded', nm, 'patch.diff')], cwd=d, capture_output=True, text=True)
        if p.returncode:
            return nm, 'PATCH DOES NOT APPLY', ''
        env = dict(os.environ, PYTHONPATH=d, MPLBACKEND='Agg', NUMBA_CACHE_DIR=os.path.join(d, '.nc'), NUMBA_NUM_THREADS='2', OMP_NUM_THREADS='2', OPENBLAS_NUM_THREADS='2')
        q = subprocess.run(['/venv/bin/python', os.path.join(VERIF, 'seeded', nm, 'demo.py')], cwd=d, env=env, capture_output=True, text=True, timeout=900)
        return nm, ('still breaks (demo exit %d)' % q.returncode) if q.returncode != 0 else 'NO LONGER BREAKS (demo exit 0)', (q.stdout + q.stderr)[-200:]
    except subprocess.TimeoutExpired:
        return nm, 'demo timeout', ''
    finally:
        shutil.rmtree(d, ignore_errors=True)


with cf.ThreadPoolExecutor(jobs) as ex:
    for nm, verdict, tail in ex.map(one, names):
        print(nm, verdict, flush=True)
