"""Run the repo's baseline suite (guard off) and compare with BASELINE.json stable_pass. Usage: run_baseline.py [pytest args/paths]"""
import json, subprocess, sys, tempfile, os, xml.etree.ElementTree as ET
base = json.load(open('/root/.vp/BASELINE.json'))
stable = set(base['stable_pass'])
out = tempfile.mktemp(suffix='.xml')
args = sys.argv[1:]
cmd = ['/venv/bin/python', '-m', 'pytest', '-q', '-p', 'no:cacheprovider', '--timeout=900',
       '--continue-on-collection-errors', '--junitxml=' + out] + args
p = subprocess.run(cmd, cwd='/repo', capture_output=True, text=True)
passed, failed = set(), set()
for tc in ET.parse(out).getroot().iter('testcase'):
    name = tc.get('classname') + '::' + tc.get('name')
    if any(c.tag in ('failure', 'error') for c in tc):
        failed.add(name)
    elif not any(c.tag == 'skipped' for c in tc):
        passed.add(name)
os.remove(out)
ran = passed | failed
lost = sorted((stable & ran) - passed) if args else sorted(stable - passed)
print('ran %d, passed %d, failed %d; stable tests lost: %d' % (len(ran), len(passed), len(failed), len(lost)))
for n in lost: print('  LOST', n)
newpass = sorted(passed - stable)
if newpass: print('  newly passing (not in stable baseline): %d' % len(newpass))
sys.exit(1 if lost else 0)
