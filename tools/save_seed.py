"""Store a confirmed seeded change under /verif/seeded/<ID>/ (patch.diff, demo.py, meta.json).
usage: save_seed.py <ID> [--src /tmp/seed/out_<ID>] [--eval /tmp/seed/full/eval_<ID>.json] [--name <dir name>]
A seed is kept only when the evaluation (tools/eval_seed.py, run WITH the baseline tests) shows:
demo exits 0 on the clean tree, the patch applies, the demo exits non-zero on the patched tree and no stable baseline test is lost.
"""
import json, os, shutil, sys

ID = sys.argv[1]


def opt(flag, default):
    return sys.argv[sys.argv.index(flag) + 1] if flag in sys.argv else default


src = opt('--src', '/tmp/seed/out_%s' % ID)
ev = json.load(open(opt('--eval', '/tmp/seed/full/eval_%s.json' % ID)))
name = opt('--name', ID)
VERIF = os.path.dirname(os.path.dirname(os.path.abspath(__file__)))
problems = []
if ev.get('demo_clean_exit') != 0:
    problems.append('demo does not exit 0 on the clean tree')
if not ev.get('patch_applies'):
    problems.append('patch does not apply')
if ev.get('demo_patched_exit') in (0, None):
    problems.append('demo does not fail on the patched tree')
if 'stable_lost_count' not in ev:
    problems.append('baseline tests were not run')
elif ev['stable_lost_count'] and '--allow-lost' not in sys.argv:
    problems.append('stable baseline tests lost: %s' % ev.get('stable_lost'))
if problems:
    print('NOT KEPT %s: %s' % (ID, '; '.join(problems)))
    sys.exit(1)
dst = os.path.join(VERIF, 'seeded', name)
os.makedirs(dst, exist_ok=True)
shutil.copy(os.path.join(src, 'patch.diff'), os.path.join(dst, 'patch.diff'))
shutil.copy(os.path.join(src, 'demo.py'), os.path.join(dst, 'demo.py'))
agent = json.load(open(os.path.join(src, 'meta.json')))
fired = ev.get('checks_fired', {})
meta = {
    'property': ID,
    'origin': 'independent sub-agent given only the property text and a scratch worktree of /repo (nothing from /verif)',
    'summary': agent.get('summary'),
    'needs_to_manifest': agent.get('needs') or agent.get('needs_to_manifest'),
    'files': agent.get('files'),
    'agent_report': {k: agent.get(k) for k in ('tests_run', 'demo_with_change', 'demo_without_change') if k in agent},
    'confirmed_by': {
        'how': 'tools/eval_seed.py %s: fresh scratch worktree of /repo HEAD under /tmp (removed afterwards); demo.py on the clean worktree; '
               'git apply patch.diff; demo.py on the patched worktree; full pytest run of the patched worktree compared with the stable_pass '
               'list of /root/.vp/BASELINE.json; all 20 quick checks with VERIF_REPO pointing at the patched worktree' % ID,
        'demo_clean_exit': ev.get('demo_clean_exit'),
        'demo_patched_exit': ev.get('demo_patched_exit'),
        'demo_patched_tail': ev.get('demo_patched_tail', '')[-400:],
        'diffstat': ev.get('diffstat'),
        'tests_passed_on_patched_tree': ev.get('tests_passed'),
        'stable_baseline_tests_lost': ev.get('stable_lost_count'),
        'stable_lost': ev.get('stable_lost'),
    },
    'checks': {
        'own_property_check_fires': fired.get(ID, {}).get('exit') == 1,
        'fired': {k: {'exit': v['exit'], 'rules': sorted({f.split()[2] for f in v['findings'] if f.startswith('FINDING')}),
                      'first_finding': (v['findings'] or [''])[0][:300]} for k, v in sorted(fired.items())},
    },
    'replay': 'git -C /repo apply /verif/seeded/%s/patch.diff && /verif/bin/check %s ; git -C /repo checkout -- .' % (name, ID),
}
json.dump(meta, open(os.path.join(dst, 'meta.json'), 'w'), indent=1)
print('kept %s -> %s (own check fires: %s; fired: %s)' % (ID, dst, meta['checks']['own_property_check_fires'], sorted(fired)))
