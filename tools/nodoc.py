"""Print a python source file with docstrings and blank/comment-only lines removed, keeping line numbers."""
import ast, sys, tokenize, io
def main(path, lo=None, hi=None):
    src = open(path).read()
    tree = ast.parse(src)
    skip = set()
    for node in ast.walk(tree):
        if isinstance(node, (ast.FunctionDef, ast.ClassDef, ast.Module, ast.AsyncFunctionDef)):
            b = node.body
            if b and isinstance(b[0], ast.Expr) and isinstance(b[0].value, ast.Constant) and isinstance(b[0].value.value, str):
                for l in range(b[0].lineno, b[0].end_lineno + 1):
                    skip.add(l)
    for i, line in enumerate(src.splitlines(), 1):
        if lo and i < lo: continue
        if hi and i > hi: break
        if i in skip: continue
        s = line.strip()
        if not s: continue
        print(f"{i:5d} {line.rstrip()}")
if __name__ == '__main__':
    a = sys.argv
    main(a[1], int(a[2]) if len(a) > 2 else None, int(a[3]) if len(a) > 3 else None)
