"""Mutation triage of a check (development aid, NOT part of any registered check).

For one property: generate single-point mutants of the functions the property's check reports obligations on (read from the
evidence file of the last run), and for every mutant run
  (a) the property's quick check on the mutated scratch tree (static; VERIF_REPO), and
  (b) the demonstration script of an independently seeded change of that property (seeded/<ID>*/demo.py; dynamic; exit 0 = the
      sampled property instances hold, exit 1 = violated) as a triage oracle.
Mutants the oracle kills and the check does not report are candidate MISSES to be read; mutants the check reports and the oracle
does not kill are either beyond the oracle's samples or candidate FALSE ALARMS.  The verdicts of the registered checks never
depend on this tool.

usage: mutation_triage.py <ID> [--max N] [--jobs J] [--demo path ...] [--probe benign/<ID>/probe.py] [--out file.json] [--funcs name,name]\n(--probe: a behaviour recorder; a mutant whose records differ from the unmodified tree's counts as killed)
"""
import ast, copy, json, os, random, shutil, subprocess, sys, tempfile, concurrent.futures as cf

VERIF = os.path.dirname(os.path.dirname(os.path.abspath(__file__)))
REPO = '/repo'


def opt(flag, default=None):
    return sys.argv[sys.argv.index(flag) + 1] if flag in sys.argv else default


def targets_from_evidence(pid):
    ev = json.load(open(os.path.join(VERIF, 'evidence', pid + '.json')))
    out = {}
    for fq in ev.get('coverage', {}).get('functions', []):
        mod, q = fq.split(':', 1)
        if mod.endswith('.py') and q and q != '?':
            out.setdefault(mod, set()).add(q)
    return out


class Mutator:
    """enumerate single-point mutants of one function node"""

    def __init__(self, fn):
        self.fn = fn

    def sites(self):
        out = []
        for n in ast.walk(self.fn):
            if isinstance(n, ast.BinOp) and type(n.op) in (ast.Add, ast.Sub, ast.Mult, ast.Div):
                out.append(('binop', n))
            elif isinstance(n, ast.Compare) and len(n.ops) == 1 and type(n.ops[0]) in (ast.Lt, ast.LtE, ast.Gt, ast.GtE, ast.Eq, ast.NotEq):
                out.append(('cmp', n))
            elif isinstance(n, ast.BoolOp):
                out.append(('bool', n))
            elif isinstance(n, ast.Constant) and isinstance(n.value, int) and not isinstance(n.value, bool) and abs(n.value) < 10:
                out.append(('const', n))
            elif isinstance(n, ast.Call) and len(n.args) >= 2 and not any(isinstance(a, ast.Starred) for a in n.args):
                out.append(('swapargs', n))
            elif isinstance(n, ast.Call) and isinstance(n.func, ast.Attribute) and n.func.attr == 'copy' and not n.args:
                out.append(('dropcopy', n))
            elif isinstance(n, ast.UnaryOp) and isinstance(n.op, (ast.USub, ast.Not)):
                out.append(('dropunary', n))
            elif isinstance(n, ast.Attribute) and n.attr == 'T':
                out.append(('dropT', n))
        for n in ast.walk(self.fn):
            for fld in ('body', 'orelse'):
                b = getattr(n, fld, None)
                if isinstance(b, list) and len(b) > 1:
                    for st in b:
                        if isinstance(st, ast.Expr) and isinstance(st.value, ast.Call) and not (isinstance(st.value.func, ast.Name) and st.value.func.id in ('print', 'disp')):
                            out.append(('delstmt', (n, fld, st)))
                        elif isinstance(st, (ast.Assign, ast.AugAssign)) and any(isinstance(t, (ast.Attribute, ast.Subscript)) for t in (st.targets if isinstance(st, ast.Assign) else [st.target])):
                            out.append(('delstmt', (n, fld, st)))
        return out

    @staticmethod
    def apply(kind, node):
        """mutate in place; returns description"""
        if kind == 'binop':
            m = {ast.Add: ast.Sub, ast.Sub: ast.Add, ast.Mult: ast.Div, ast.Div: ast.Mult}
            old = type(node.op).__name__
            node.op = m[type(node.op)]()
            return 'binop %s->%s' % (old, type(node.op).__name__)
        if kind == 'cmp':
            m = {ast.Lt: ast.LtE, ast.LtE: ast.Lt, ast.Gt: ast.GtE, ast.GtE: ast.Gt, ast.Eq: ast.NotEq, ast.NotEq: ast.Eq}
            old = type(node.ops[0]).__name__
            node.ops = [m[type(node.ops[0])]()]
            return 'cmp %s->%s' % (old, type(node.ops[0]).__name__)
        if kind == 'bool':
            old = type(node.op).__name__
            node.op = ast.Or() if isinstance(node.op, ast.And) else ast.And()
            return 'bool %s->%s' % (old, type(node.op).__name__)
        if kind == 'const':
            old = node.value
            node.value = old + 1
            return 'const %r->%r' % (old, node.value)
        if kind == 'swapargs':
            node.args[0], node.args[1] = node.args[1], node.args[0]
            return 'swap first two arguments'
        if kind == 'dropcopy':
            # x.copy() -> x : replace call by receiver through a marker handled by caller
            return None
        if kind == 'dropunary':
            return None
        if kind == 'dropT':
            return None
        if kind == 'delstmt':
            parent, fld, st = node
            getattr(parent, fld).remove(st)
            return 'delete statement'
        return None


class Replace(ast.NodeTransformer):
    def __init__(self, target, new):
        self.target, self.new = target, new

    def generic_visit(self, node):
        if node is self.target:
            return self.new
        return super().generic_visit(node)

    def visit(self, node):
        if node is self.target:
            return self.new
        return super().visit(node)


def find_func(tree, qual):
    parts = qual.split('.')
    parts = [p for p in parts if p != '<locals>']
    scope = tree
    for p in parts:
        nxt = None
        for n in ast.walk(scope):
            if isinstance(n, (ast.FunctionDef, ast.ClassDef)) and n.name == p and n is not scope:
                nxt = n
                break
        if nxt is None:
            return None
        scope = nxt
    return scope if isinstance(scope, ast.FunctionDef) else None


def make_mutants(relpath, quals, limit, rnd):
    text = open(os.path.join(REPO, relpath), encoding='utf-8').read()
    base = ast.parse(text)
    plans = []
    for q in sorted(quals):
        fn = find_func(base, q)
        if fn is None:
            continue
        n_sites = len(Mutator(fn).sites())
        for k in range(n_sites):
            plans.append((q, k))
    rnd.shuffle(plans)
    out = []
    for (q, k) in plans:
        if len(out) >= limit:
            break
        tree = ast.parse(text)
        fn = find_func(tree, q)
        sites = Mutator(fn).sites()
        if k >= len(sites):
            continue
        kind, node = sites[k]
        line = getattr(node if not isinstance(node, tuple) else node[2], 'lineno', 0)
        before = ast.unparse(node if not isinstance(node, tuple) else node[2])[:90]
        if kind in ('dropcopy', 'dropunary', 'dropT'):
            new = node.func.value if kind == 'dropcopy' else (node.operand if kind == 'dropunary' else node.value)
            tree = Replace(node, new).visit(tree)
            desc = {'dropcopy': 'drop .copy()', 'dropunary': 'drop unary operator', 'dropT': 'drop .T'}[kind]
        else:
            desc = Mutator.apply(kind, node)
        if desc is None:
            continue
        ast.fix_missing_locations(tree)
        try:
            new_text = ast.unparse(tree) + '\n'
            compile(new_text, relpath, 'exec')
        except Exception:
            continue
        out.append({'file': relpath, 'func': q, 'line': line, 'kind': desc, 'before': before, 'text': new_text})
    return out


def _same(a, b, tol=1e-9):
    if isinstance(a, (int, float)) and isinstance(b, (int, float)) and not isinstance(a, bool) and not isinstance(b, bool):
        if (a != a and b != b) or a == b:
            return True
        return abs(a - b) <= tol * max(1.0, abs(a), abs(b))
    if isinstance(a, list) and isinstance(b, list):
        return len(a) == len(b) and all(_same(x, y, tol) for x, y in zip(a, b))
    if isinstance(a, dict) and isinstance(b, dict):
        return a.keys() == b.keys() and all(_same(a[k], b[k], tol) for k in a)
    return a == b


PROBE_BASE = {}


def probe_baseline(probe):
    """output of a behaviour probe (benign/<ID>/probe.py) on the unmodified tree"""
    if probe not in PROBE_BASE:
        env = dict(os.environ, PYTHONPATH=REPO, MPLBACKEND='Agg', NUMBA_NUM_THREADS='2', OMP_NUM_THREADS='2', OPENBLAS_NUM_THREADS='2',
                   NUMBA_CACHE_DIR=tempfile.mkdtemp(prefix='vsa_nc_'))
        q = subprocess.run(['/venv/bin/python', probe], cwd=REPO, env=env, capture_output=True, text=True, timeout=900)
        PROBE_BASE[probe] = json.loads(q.stdout)
        shutil.rmtree(env['NUMBA_CACHE_DIR'], ignore_errors=True)
    return PROBE_BASE[probe]


def run_one(pid, mut, demos, idx):
    d = tempfile.mkdtemp(prefix='vsa_mut_%s_' % pid)
    try:
        shutil.copytree(os.path.join(REPO, 'basic_robotics'), os.path.join(d, 'basic_robotics'), ignore=shutil.ignore_patterns('__pycache__'))
        with open(os.path.join(d, mut['file']), 'w', encoding='utf-8') as f:
            f.write(mut['text'])
        env = dict(os.environ, VERIF_REPO=d, VERIF_NO_EVIDENCE='1', PYTHONDONTWRITEBYTECODE='1')
        p = subprocess.run(['/venv/bin/python', '-m', 'sa.check', pid, '--tier', 'quick'], cwd=VERIF, env=env, capture_output=True, text=True, timeout=600)
        finds = [l[:200] for l in p.stdout.splitlines() if l.startswith(('FINDING', 'ANALYSIS-ERROR'))]
        res = {'check_exit': p.returncode, 'findings': finds[:3], 'demos': {}}
        if '--all-checks' in sys.argv and p.returncode == 0:
            # does ANY property's check report this mutant?  (a probe covers more than one property's ground)
            others = []
            for k in range(1, 21):
                q_ = 'C%02d' % k
                if q_ == pid:
                    continue
                pp = subprocess.run(['/venv/bin/python', '-m', 'sa.check', q_, '--tier', 'quick'], cwd=VERIF, env=env, capture_output=True, text=True, timeout=600)
                if pp.returncode != 0:
                    others.append('%s:%d' % (q_, pp.returncode))
                    if pp.returncode == 1:
                        break
            res['other_checks'] = others
            if any(o.endswith(':1') for o in others):
                res['check_exit'] = 1
                res['findings'] = ['reported by ' + ', '.join(others)]
        denv = dict(os.environ, PYTHONPATH=d, MPLBACKEND='Agg', NUMBA_CACHE_DIR=os.path.join(d, '.nc'), NUMBA_NUM_THREADS='2', OMP_NUM_THREADS='2',
                    OPENBLAS_NUM_THREADS='2')
        for demo in demos:
            if demo.startswith('probe:'):
                try:
                    q = subprocess.run(['/venv/bin/python', demo[6:]], cwd=d, env=denv, capture_output=True, text=True, timeout=600)
                    try:
                        outp = json.loads(q.stdout)
                        base = probe_baseline(demo[6:])
                        diff = next((str(x)[:100] + ' | ' + str(y)[:100] for x, y in zip(base, outp) if not _same(x, y)), None)
                        if diff is None and len(base) != len(outp):
                            diff = 'number of records differs'
                        res['demos'][demo] = {'exit': 1 if diff else 0, 'tail': diff or ''}
                    except Exception:  # noqa
                        res['demos'][demo] = {'exit': 'crash', 'tail': (q.stdout + q.stderr)[-240:]}
                except subprocess.TimeoutExpired:
                    res['demos'][demo] = {'exit': 'timeout', 'tail': ''}
                continue
            try:
                q = subprocess.run(['/venv/bin/python', demo], cwd=d, env=denv, capture_output=True, text=True, timeout=420)
                crashed = q.returncode != 0 and 'Traceback (most recent call last)' in q.stderr
                res['demos'][demo] = {'exit': 'crash' if crashed else q.returncode, 'tail': (q.stdout + q.stderr)[-240:]}
            except subprocess.TimeoutExpired:
                res['demos'][demo] = {'exit': 'timeout', 'tail': ''}
        tests = [a for a in (opt('--tests') or '').split(',') if a]
        if tests and res['check_exit'] == 0 and any(v['exit'] == 1 for v in res['demos'].values()):
            # only candidate misses are worth the time: does the repository's own suite still pass on this mutant?
            shutil.copytree(os.path.join(REPO, 'tests'), os.path.join(d, 'tests'), ignore=shutil.ignore_patterns('__pycache__'))
            t = subprocess.run(['/venv/bin/python', '-m', 'pytest', '-q', '-x', '-p', 'no:cacheprovider'] + tests, cwd=d, env=denv,
                               capture_output=True, text=True, timeout=1500)
            res['tests_exit'] = t.returncode
            res['tests_tail'] = t.stdout[-200:]
        return idx, res
    finally:
        shutil.rmtree(d, ignore_errors=True)


def main():
    pid = sys.argv[1]
    limit = int(opt('--max', '24'))
    jobs = int(opt('--jobs', '6'))
    rnd = random.Random(int(opt('--seed', '1')))
    demos = []
    if '--demo' in sys.argv:
        i = sys.argv.index('--demo') + 1
        while i < len(sys.argv) and not sys.argv[i].startswith('--'):
            demos.append(sys.argv[i])
            i += 1
    else:
        sd = os.path.join(VERIF, 'seeded')
        for nm in sorted(os.listdir(sd)) if os.path.isdir(sd) else []:
            if nm.startswith(pid) and os.path.exists(os.path.join(sd, nm, 'demo.py')):
                demos.append(os.path.join(sd, nm, 'demo.py'))
    for pr in [sys.argv[k + 1] for k, a in enumerate(sys.argv) if a == '--probe']:
        demos.append('probe:' + os.path.abspath(pr))
        probe_baseline('' + os.path.abspath(pr))
    tg = targets_from_evidence(pid)
    only = set((opt('--funcs') or '').split(',')) - {''}
    muts = []
    onlyfile = opt('--file')
    if onlyfile:
        tg = {k: v for k, v in tg.items() if onlyfile in k}
    per_file = max(1, limit // max(1, len(tg)))
    for relpath, quals in sorted(tg.items()):
        if only:
            quals = {q for q in quals if q.split('.')[-1] in only or q in only}
        if not quals or not os.path.exists(os.path.join(REPO, relpath)):
            continue
        muts.extend(make_mutants(relpath, quals, per_file, rnd))
    muts = muts[:limit]
    print('%s: %d mutants over %d files, demos: %s' % (pid, len(muts), len(tg), demos), flush=True)
    results = [None] * len(muts)
    with cf.ThreadPoolExecutor(max_workers=jobs) as ex:
        futs = [ex.submit(run_one, pid, m, demos, i) for i, m in enumerate(muts)]
        for fu in cf.as_completed(futs):
            i, r = fu.result()
            results[i] = r
            m = muts[i]
            dk = [v['exit'] for v in r['demos'].values()]
            tag = 'CHECK+' if r['check_exit'] == 1 else ('CHECK!' if r['check_exit'] == 2 else 'check-')
            dtag = 'demo-kill' if any(x == 1 for x in dk) else ('demo-crash' if any(x not in (0, 1) for x in dk) else 'demo-ok')
            ttag = '' if 'tests_exit' not in r else (' tests-pass' if r['tests_exit'] == 0 else ' tests-fail')
            print('%s %-10s%s %s:%s line %d [%s] %s' % (tag, dtag, ttag, m['file'].split('/')[-1], m['func'], m['line'], m['kind'], m['before'][:60]), flush=True)
    out = opt('--out')
    if out:
        json.dump([{k: v for k, v in m.items() if k != 'text'} | {'result': r} for m, r in zip(muts, results)], open(out, 'w'), indent=1)
    miss = [(m, r) for m, r in zip(muts, results) if r['check_exit'] == 0 and any(v['exit'] == 1 for v in r['demos'].values())]
    fa = [(m, r) for m, r in zip(muts, results) if r['check_exit'] == 1 and r['demos'] and all(v['exit'] == 0 for v in r['demos'].values())]
    print('\n%s summary: %d mutants; check fired on %d; oracle killed %d; candidate misses %d; fired-but-oracle-ok %d' % (
        pid, len(muts), sum(1 for r in results if r['check_exit'] == 1), sum(1 for r in results if any(v['exit'] == 1 for v in r['demos'].values())), len(miss), len(fa)))
    for m, r in miss:
        if r.get('tests_exit', 0) != 0:
            continue            # the repository's own tests already catch this mutant
        print('  MISS? %s:%s line %d [%s] %s | %s' % (m['file'], m['func'], m['line'], m['kind'], m['before'], next(iter(r['demos'].values()))['tail'][-120:].replace('\n', ' ')))


if __name__ == '__main__':
    main()
