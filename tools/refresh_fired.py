"""Refresh the `checks_fired` part of a seed evaluation (tools/eval_seed.py output) against the CURRENT checks.
usage: refresh_fired.py <eval.json> <patched tree>     (the tree is a scratch copy with the seed applied; development aid)"""
import json, os, subprocess, sys
from concurrent.futures import ThreadPoolExecutor
ev_path, tree = sys.argv[1], sys.argv[2]
VERIF = os.path.dirname(os.path.dirname(os.path.abspath(__file__)))
ev = json.load(open(ev_path))
env = dict(os.environ, VERIF_REPO=tree, VERIF_NO_EVIDENCE='1', PYTHONDONTWRITEBYTECODE='1')


def one(pid):
    p = subprocess.run(['/venv/bin/python', '-m', 'sa.check', pid, '--tier', 'quick'], cwd=VERIF, env=env, capture_output=True, text=True)
    return pid, p.returncode, [l[:260] for l in (p.stdout + p.stderr).splitlines() if l.startswith(('FINDING', 'ANALYSIS-ERROR'))][:6]


fired = {}
with ThreadPoolExecutor(16) as ex:
    for pid, rc, lines in ex.map(one, ['C%02d' % i for i in range(1, 21)]):
        if rc:
            fired[pid] = {'exit': rc, 'findings': lines}
ev['checks_fired'] = fired
ev['own_property_fired'] = fired.get(ev['id'], {}).get('exit') == 1
json.dump(ev, open(ev_path, 'w'), indent=1)
print(ev['id'], 'own fires:', ev['own_property_fired'], 'fired:', sorted(fired))
