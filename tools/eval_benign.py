"""Evaluate one behaviour-preserving refactor produced by an independent sub-agent (development aid).
usage: eval_benign.py <ID> [--src /tmp/seed3/out_<ID>] [--notests]
In a fresh scratch worktree of /repo HEAD (removed afterwards): probe.py on the clean tree and on the patched tree must print
the same JSON records (numbers to 1e-9); the stable baseline tests must still pass; then every quick check is run against the
patched tree: every check that does NOT exit 0 is a false alarm (or an analysis error) of that check.
"""
import json, os, shutil, subprocess, sys, tempfile, xml.etree.ElementTree as ET

ID = sys.argv[1]
src = '/tmp/seed3/out_%s' % ID
if '--src' in sys.argv:
    src = sys.argv[sys.argv.index('--src') + 1]
VERIF = os.path.dirname(os.path.dirname(os.path.abspath(__file__)))
tree = tempfile.mkdtemp(prefix='benchk_%s_' % ID)
os.rmdir(tree)
res = {'id': ID, 'src': src}


def run(cmd, cwd=None, env=None, timeout=1800):
    p = subprocess.run(cmd, cwd=cwd, env=env, capture_output=True, text=True, timeout=timeout)
    return p.returncode, p.stdout, p.stderr


def same(a, b, tol=1e-9):
    if isinstance(a, (int, float)) and isinstance(b, (int, float)) and not isinstance(a, bool) and not isinstance(b, bool):
        if a != a and b != b:
            return True
        if a == b:
            return True
        return abs(a - b) <= tol * max(1.0, abs(a), abs(b))
    if isinstance(a, list) and isinstance(b, list):
        return len(a) == len(b) and all(same(x, y, tol) for x, y in zip(a, b))
    if isinstance(a, dict) and isinstance(b, dict):
        return a.keys() == b.keys() and all(same(a[k], b[k], tol) for k in a)
    return a == b


try:
    for f in ('patch.diff', 'probe.py', 'meta.json'):
        if not os.path.exists(os.path.join(src, f)):
            res['error'] = 'missing ' + f
            raise SystemExit
    rc, out, err = run(['git', '-C', '/repo', 'worktree', 'add', '-q', '--detach', tree, 'HEAD'])
    if rc:
        res['error'] = 'worktree: ' + err
        raise SystemExit
    env = dict(os.environ, PYTHONPATH=tree, MPLBACKEND='Agg', NUMBA_CACHE_DIR=os.path.join(tree, '.numba_cache'),
               NUMBA_NUM_THREADS='2', OMP_NUM_THREADS='2', OPENBLAS_NUM_THREADS='2')
    rc0, out0, err0 = run(['/venv/bin/python', os.path.join(src, 'probe.py')], cwd=tree, env=env, timeout=900)
    res['probe_clean_exit'] = rc0
    rc, out, err = run(['git', '-C', tree, 'apply', '--whitespace=nowarn', os.path.join(src, 'patch.diff')])
    res['patch_applies'] = rc == 0
    if rc:
        res['error'] = 'patch does not apply: ' + err[-300:]
        raise SystemExit
    rc, out, err = run(['git', '-C', tree, 'diff', '--stat'])
    res['diffstat'] = out.strip().splitlines()[-1] if out.strip() else ''
    rc1, out1, err1 = run(['/venv/bin/python', os.path.join(src, 'probe.py')], cwd=tree, env=env, timeout=900)
    res['probe_patched_exit'] = rc1
    try:
        a, b = json.loads(out0), json.loads(out1)
        res['probe_records'] = len(a) if isinstance(a, list) else None
        res['probe_equal'] = same(a, b)
        if not res['probe_equal'] and isinstance(a, list) and isinstance(b, list):
            res['probe_first_diff'] = next((str(x)[:150] + ' | ' + str(y)[:150] for x, y in zip(a, b) if not same(x, y)), 'length differs')
    except Exception as e:  # noqa
        res['probe_equal'] = False
        res['probe_error'] = repr(e)[:200] + ' | ' + err0[-200:] + ' | ' + err1[-200:]
    if '--notests' not in sys.argv:
        base = json.load(open('/root/.vp/BASELINE.json'))
        stable = set(base['stable_pass'])
        junit = os.path.join(tree, 'junit.xml')
        rc, out, err = run(['/venv/bin/python', '-m', 'pytest', '-q', '-p', 'no:cacheprovider', '--timeout=900', '--continue-on-collection-errors',
                            '--junitxml=' + junit], cwd=tree, env=env, timeout=3000)
        passed = set()
        try:
            for tc in ET.parse(junit).getroot().iter('testcase'):
                name = tc.get('classname') + '::' + tc.get('name')
                if not any(c.tag in ('failure', 'error', 'skipped') for c in tc):
                    passed.add(name)
        except Exception as e:  # noqa
            res['tests_error'] = repr(e)
        lost = sorted(stable - passed)
        res['stable_lost_count'] = len(lost)
        res['stable_lost'] = lost[:8]
        res['tests_passed'] = len(passed)
    fired = {}
    cenv = dict(os.environ, VERIF_REPO=tree, VERIF_NO_EVIDENCE='1', PYTHONDONTWRITEBYTECODE='1')
    for i in range(1, 21):
        pid = 'C%02d' % i
        rc, out, err = run(['/venv/bin/python', '-m', 'sa.check', pid, '--tier', 'quick'], cwd=VERIF, env=cenv, timeout=900)
        if rc != 0:
            fired[pid] = {'exit': rc, 'findings': [l[:400] for l in (out + err).splitlines() if l.startswith('FINDING') or l.startswith('ANALYSIS-ERROR')][:8]}
    res['checks_disturbed'] = fired
finally:
    subprocess.run(['git', '-C', '/repo', 'worktree', 'remove', '--force', tree], capture_output=True)
    shutil.rmtree(tree, ignore_errors=True)
    print(json.dumps(res, indent=1))
