"""Store a confirmed behaviour-preserving refactor under /verif/benign/<ID>/ (patch.diff, probe.py, meta.json).
usage: save_benign.py <ID> [--src /tmp/seed3/out_<ID>] [--eval /tmp/seed3/full/eval_<ID>.json] [--name <dir name>]
Kept only when the evaluation (tools/eval_benign.py, run WITH the baseline tests) shows: the patch applies, probe.py prints the same
records on the clean and on the patched tree, and no stable baseline test is lost.  Every check must stay silent on it (thorough tier).
"""
import json, os, shutil, sys

ID = sys.argv[1]


def opt(flag, default):
    return sys.argv[sys.argv.index(flag) + 1] if flag in sys.argv else default


src = opt('--src', '/tmp/seed3/out_%s' % ID)
ev = json.load(open(opt('--eval', '/tmp/seed3/full/eval_%s.json' % ID)))
VERIF = os.path.dirname(os.path.dirname(os.path.abspath(__file__)))
problems = []
if not ev.get('patch_applies'):
    problems.append('patch does not apply')
if not ev.get('probe_equal'):
    problems.append('probe output differs: %s' % ev.get('probe_first_diff', ev.get('probe_error')))
if 'stable_lost_count' not in ev:
    problems.append('baseline tests were not run')
elif ev['stable_lost_count']:
    problems.append('stable baseline tests lost: %s' % ev.get('stable_lost'))
if problems:
    print('NOT KEPT %s: %s' % (ID, '; '.join(problems)))
    sys.exit(1)
name = opt('--name', ID)
dst = os.path.join(VERIF, 'benign', name)
os.makedirs(dst, exist_ok=True)
shutil.copy(os.path.join(src, 'patch.diff'), os.path.join(dst, 'patch.diff'))
shutil.copy(os.path.join(src, 'probe.py'), os.path.join(dst, 'probe.py'))
agent = json.load(open(os.path.join(src, 'meta.json')))
meta = {
    'written_for_property': ID,
    'kind': 'behaviour-preserving refactor (no check may report it)',
    'origin': 'independent sub-agent given only the property text and a scratch worktree of /repo (nothing from /verif), asked for a '
              'maintainer-style clean-up of the code the property is about that changes no observable behaviour',
    'summary': agent.get('summary'),
    'functions': agent.get('functions'),
    'files': agent.get('files'),
    'agent_report': {k: agent.get(k) for k in ('tests_run', 'probe') if k in agent},
    'confirmed_by': {
        'how': 'tools/eval_benign.py %s: fresh scratch worktree of /repo HEAD under /tmp (removed afterwards); probe.py on the clean worktree; '
               'git apply patch.diff; probe.py on the patched worktree, records compared (numbers to 1e-9); full pytest run of the patched '
               'worktree compared with the stable_pass list of /root/.vp/BASELINE.json' % ID,
        'probe_records': ev.get('probe_records'),
        'probe_equal': ev.get('probe_equal'),
        'tests_passed': ev.get('tests_passed'),
        'stable_lost_count': ev.get('stable_lost_count'),
        'diffstat': ev.get('diffstat'),
    },
}
json.dump(meta, open(os.path.join(dst, 'meta.json'), 'w'), indent=1)
print('kept', dst)
