"""Evaluate one seeded breaking change produced by an independent sub-agent.
usage: eval_seed.py <ID> [--src /tmp/seed/out_<ID>] [--keep]
Steps (all in a fresh scratch worktree of /repo HEAD, removed afterwards):
  demo on the clean tree must exit 0; patch must apply; demo on the patched tree must exit non-zero;
  the stable baseline tests must still pass on the patched tree; then every quick check is run against the patched tree
  (VERIF_REPO) and the ones that report a VIOLATION are listed.
"""
import json, os, shutil, subprocess, sys, tempfile, xml.etree.ElementTree as ET

ID = sys.argv[1]
src = '/tmp/seed/out_%s' % ID
if '--src' in sys.argv:
    src = sys.argv[sys.argv.index('--src') + 1]
VERIF = os.path.dirname(os.path.dirname(os.path.abspath(__file__)))
tree = tempfile.mkdtemp(prefix='seedchk_%s_' % ID)
os.rmdir(tree)
res = {'id': ID, 'src': src}


def run(cmd, cwd=None, env=None, timeout=1800):
    p = subprocess.run(cmd, cwd=cwd, env=env, capture_output=True, text=True, timeout=timeout)
    return p.returncode, (p.stdout + p.stderr)


try:
    for f in ('patch.diff', 'demo.py', 'meta.json'):
        if not os.path.exists(os.path.join(src, f)):
            res['error'] = 'missing ' + f
            raise SystemExit
    rc, out = run(['git', '-C', '/repo', 'worktree', 'add', '-q', '--detach', tree, 'HEAD'])
    if rc:
        res['error'] = 'worktree: ' + out
        raise SystemExit
    env = dict(os.environ, PYTHONPATH=tree, MPLBACKEND='Agg', NUMBA_CACHE_DIR=os.path.join(tree, '.numba_cache'))
    rc0, out0 = run(['/venv/bin/python', os.path.join(src, 'demo.py')], cwd=tree, env=env, timeout=900)
    res['demo_clean_exit'] = rc0
    res['demo_clean_tail'] = out0[-400:]
    rc, out = run(['git', '-C', tree, 'apply', '--whitespace=nowarn', os.path.join(src, 'patch.diff')])
    res['patch_applies'] = rc == 0
    if rc:
        res['error'] = 'patch does not apply: ' + out[-300:]
        raise SystemExit
    rc, out = run(['git', '-C', tree, 'diff', '--stat'])
    res['diffstat'] = out.strip().splitlines()[-1] if out.strip() else ''
    rc1, out1 = run(['/venv/bin/python', os.path.join(src, 'demo.py')], cwd=tree, env=env, timeout=900)
    res['demo_patched_exit'] = rc1
    res['demo_patched_tail'] = out1[-600:]
    # baseline tests on the patched tree
    if '--notests' not in sys.argv:
        base = json.load(open('/root/.vp/BASELINE.json'))
        stable = set(base['stable_pass'])
        junit = os.path.join(tree, 'junit.xml')
        rc, out = run(['/venv/bin/python', '-m', 'pytest', '-q', '-p', 'no:cacheprovider', '--timeout=900', '--continue-on-collection-errors',
                       '--junitxml=' + junit], cwd=tree, env=dict(env, PYTHONPATH=tree), timeout=3000)
        passed = set()
        try:
            for tc in ET.parse(junit).getroot().iter('testcase'):
                name = tc.get('classname') + '::' + tc.get('name')
                if not any(c.tag in ('failure', 'error', 'skipped') for c in tc):
                    passed.add(name)
        except Exception as e:
            res['tests_error'] = repr(e)
        lost = sorted(stable - passed)
        res['stable_lost_count'] = len(lost)
        res['stable_lost'] = lost[:8]
        res['pytest_tail'] = out[-500:] if lost else ''
        res['tests_passed'] = len(passed)
    # checks
    fired = {}
    cenv = dict(os.environ, VERIF_REPO=tree, VERIF_NO_EVIDENCE='1', PYTHONDONTWRITEBYTECODE='1')
    for i in range(1, 21):
        pid = 'C%02d' % i
        rc, out = run(['/venv/bin/python', '-m', 'sa.check', pid, '--tier', 'quick'], cwd=VERIF, env=cenv, timeout=900)
        if rc != 0:
            fired[pid] = {'exit': rc, 'findings': [l[:260] for l in out.splitlines() if l.startswith('FINDING') or l.startswith('ANALYSIS-ERROR')][:6]}
    res['checks_fired'] = fired
    res['own_property_fired'] = fired.get(ID, {}).get('exit') == 1
finally:
    subprocess.run(['git', '-C', '/repo', 'worktree', 'remove', '--force', tree], capture_output=True)
    shutil.rmtree(tree, ignore_errors=True)
    # evidence files may have been touched by violation replay files
    print(json.dumps(res, indent=1))
