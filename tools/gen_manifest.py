"""Regenerate /verif/MANIFEST.json from the per-property table below (keeps it schema-valid)."""
import json, os, sys
HERE = os.path.dirname(os.path.dirname(os.path.abspath(__file__)))
sys.path.insert(0, HERE)
from sa.manifest_data import CHECKS, NOT_APPLICABLE, ENGINES, NOTES

BASE_OFF = ("cd /repo && /venv/bin/python -m pytest -ra -q -p no:cacheprovider --timeout=900 "
            "--continue-on-collection-errors --junitxml=/tmp/basic_robotics_baseline.junit.xml")
man = {
    "version": 1,
    "setup_cmd": "cd /verif && /venv/bin/python -m sa.setup_check",
    "hooks": {
        "guard": "BASIC_ROBOTICS_VERIF",
        "enable": "none needed: the checks parse /repo's sources and never execute them; no hook code exists in /repo",
        "baseline_off_cmd": BASE_OFF,
        "source_commits": [],
        "add_only": True,
    },
    "engines": ENGINES,
    "checks": [],
    "notes": NOTES,
    "not_applicable": NOT_APPLICABLE,
}
for pid in sorted(CHECKS):
    c = CHECKS[pid]
    man["checks"].append({
        "property_id": pid,
        "quick_cmd": "bin/check %s --tier quick" % pid,
        "thorough_cmd": "bin/check %s --tier thorough" % pid,
        "evidence_file": "/verif/evidence/%s.json" % pid,
        "replay_cmd_template": "bin/check %s --replay {path}" % pid,
        "engine": c["engine"],
        "level_claimed": {"category": c.get("category", "other"), "text": c["text"], "design_ref": c["design_ref"]},
        "level_note": c["note"],
        "technique": c["technique"],
    })
with open(os.path.join(HERE, "MANIFEST.json"), "w") as f:
    json.dump(man, f, indent=1)
try:
    import jsonschema
    jsonschema.validate(man, json.load(open("/root/.vp/MANIFEST.schema.json")))
    print("MANIFEST.json valid;", len(man["checks"]), "checks,", len(NOT_APPLICABLE), "not applicable")
except ImportError:
    print("MANIFEST.json written (jsonschema not importable here)")
