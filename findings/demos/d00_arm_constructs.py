"""Triage demo for D0 (C05-C08, C13): an Arm must be constructible under the installed NumPy.
Run from /repo (exit 0 = holds)."""
import sys
import numpy as np
from basic_robotics.general import tm
from basic_robotics.kinematics.arm_model import Arm
S = np.array([[0, 0, 1, 0, 0, 0], [0, 1, 0, -0.5, 0, 0]], dtype=float).T
try:
    a = Arm(tm(), S, tm([1, 0, 0.5, 0, 0, 0]), np.array([[0, 0, 0], [0, 0, 0.5]], dtype=float).T)
    print('PASS: Arm constructed, FK(0) =', a.FK(np.zeros(2)))
    sys.exit(0)
except AttributeError as e:
    print('FAIL: Arm(...) raises', str(e)[:90])
    sys.exit(1)
