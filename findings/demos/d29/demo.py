"""D29 (C07 R07.9): the limit-respecting IK reported SUCCESS for a goal it had not reached when the start vector lay outside the
joint limits at (or near) the goal: IKinSpaceConstrained evaluated the error of the raw start vector first, found it below tolerance
and returned that out-of-limit vector with success; Arm.IK / constrainedIK then clamp it through FK, so the arm reports a pose it
is not in as reached.  Exits 1 when the defect is present.  Triage script, not part of any check."""
import os
import sys
import numpy as np
from basic_robotics.general import tm
from basic_robotics.kinematics import loadArmFromURDF
from basic_robotics.modern_robotics_numba import modern_high_performance as mr

here = os.path.dirname(os.path.abspath(__file__))
urdf = None
for root in (os.environ.get('BR_REPO', ''), '/repo', os.getcwd()):
    cand = os.path.join(root, 'tests', 'test_helpers', 'irb_2400.urdf')
    if os.path.exists(cand):
        urdf = cand
        break
arm = loadArmFromURDF(urdf)
lo, hi = np.array(arm.joint_mins, float), np.array(arm.joint_maxs, float)
start = (lo + hi) / 2.0
start[1] = hi[1] + 0.3                                     # one joint 0.3 rad beyond its upper limit
goal = tm(mr.FKinSpace(arm._end_effector_home.gTM(), arm.screw_list, start))   # the pose of that out-of-limit vector
theta, ok = arm.IK(goal, start.copy(), protect=False)[:2]
err = float(np.linalg.norm((arm.FK(np.array(theta, float)) - goal)[0:6]))
inside = bool(np.all(theta >= lo - 1e-9) and np.all(theta <= hi + 1e-9))
print('success reported: %s ; pose error of the returned joints: %.4f ; inside the limits: %s' % (ok, err, inside))
if ok and err > 1e-3:
    print('FAIL: success reported for joints whose pose misses the goal by %.3f' % err)
    sys.exit(1)
print('ok: success is only reported for a pose that is reached')
sys.exit(0)
