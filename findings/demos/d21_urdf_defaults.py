"""Triage demo for D21 (C13): optional URDF elements (joint <origin>, <axis>) take their specified defaults.
Run from /repo (exit 0 = holds)."""
import sys, os, tempfile
import numpy as np
from basic_robotics.kinematics import loadArmFromURDF

URDF = '''<?xml version="1.0"?>
<robot name="two">
  <link name="base"/>
  <link name="l1"/>
  <link name="l2"/>
  <joint name="j1" type="revolute">
    <parent link="base"/><child link="l1"/>
    %s
    <limit lower="-3" upper="3" effort="1" velocity="1"/>
  </joint>
  <joint name="j2" type="revolute">
    <parent link="l1"/><child link="l2"/>
    <origin xyz="0 0 1" rpy="0 0 0"/>
    <axis xyz="0 1 0"/>
    <limit lower="-3" upper="3" effort="1" velocity="1"/>
  </joint>
</robot>'''
bad = 0
for label, j1 in (('no <axis> (default 1 0 0)', '<origin xyz="0 0 0.5" rpy="0 0 0"/>'),
                  ('no <origin> (default identity)', '<axis xyz="0 0 1"/>')):
    d = tempfile.mkdtemp()
    path = os.path.join(d, 'r.urdf')
    open(path, 'w').write(URDF % j1)
    try:
        arm = loadArmFromURDF(path)
        q = np.array([0.3, -0.4])
        T = arm.FK(q.copy()).gTM()
        print(label, '-> loaded, dof', arm.num_dof)
    except Exception as e:
        bad += 1
        print(label, '-> FAIL:', type(e).__name__, str(e)[:70])
    finally:
        os.remove(path); os.rmdir(d)
print('PASS' if not bad else 'FAIL')
sys.exit(1 if bad else 0)
