"""Triage demo for D8 (C12): a - s = a + (-s) and s - a = -(a - s) for scalar / array-like operands.
Run from /repo with /venv/bin/python (exit 0 = property holds)."""
import sys
import numpy as np
from basic_robotics.general import Screw
a = Screw(np.array([1., 2., 3., 4., 5., 6.]))
s = 1.5
lhs = np.asarray(a - s).flatten(); rhs = np.asarray(a + (-s)).flatten()
lhs2 = np.asarray(s - a).flatten(); rhs2 = -np.asarray(a - s).flatten()
col = np.arange(6.).reshape((6, 1)) * 0 + 2.0      # (6,1) array: len 6 branch; use a (1,) array for the fall-through
one = np.array([2.0])
lhs3 = np.asarray(a - one).flatten(); rhs3 = np.asarray(a + (-one)).flatten()
ok = np.allclose(lhs, rhs) and np.allclose(lhs2, rhs2) and np.allclose(lhs3, rhs3)
print('a - s      =', lhs, '\na + (-s)   =', rhs)
print('s - a      =', lhs2, '\n-(a - s)   =', rhs2)
print('PASS' if ok else 'FAIL: scalar/array fall-through of Screw.__sub__/__rsub__ adds instead of subtracting')
sys.exit(0 if ok else 1)
