"""Triage demo for D20 (C16): an iteration budget of 1 must grow root + 1 node, not raise.
Run from /repo with /venv/bin/python (exit 0 = property holds)."""
import sys, random
from basic_robotics.general import tm
from basic_robotics.path_planning.pathplanner import RRTStar
random.seed(1)
p = RRTStar(tm())
p.iterations = 1
try:
    path = p.findPath(tm([1, 1, 1, 0, 0, 0]))
except ZeroDivisionError as e:
    print('FAIL: budget 1 raises ZeroDivisionError:', e)
    sys.exit(1)
n = len(p.r6_tree_graph.getAll())
print('\nnodes in tree:', n, 'path length:', len(path))
ok = n == 2
print('PASS' if ok else 'FAIL: expected root + 1 node')
sys.exit(0 if ok else 1)
