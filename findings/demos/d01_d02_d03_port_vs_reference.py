"""Triage demo for D1-D3 (C02): the port must return where the reference returns, with the same values.
Run from /repo: MPLBACKEND=Agg /venv/bin/python /verif/findings/demos/d01_d02_d03_port_vs_reference.py [d1|d2|d3]"""
import sys, os
os.environ.setdefault('MPLBACKEND', 'Agg')
import numpy as np
import modern_robotics as ref
from basic_robotics.modern_robotics_numba import modern_high_performance as port

which = sys.argv[1:] or ['d1', 'd2', 'd3']
bad = 0
# three-link example of the MR docstrings
thetalist = np.array([0.1, 0.1, 0.1]); dthetalist = np.array([0.1, 0.2, 0.3])
g = np.array([0, 0, -9.8])
M01 = np.array([[1, 0, 0, 0], [0, 1, 0, 0], [0, 0, 1, 0.089159], [0, 0, 0, 1.]])
M12 = np.array([[0, 0, 1, 0.28], [0, 1, 0, 0.13585], [-1, 0, 0, 0], [0, 0, 0, 1.]])
M23 = np.array([[1, 0, 0, 0], [0, 1, 0, -0.1197], [0, 0, 1, 0.395], [0, 0, 0, 1.]])
M34 = np.array([[1, 0, 0, 0], [0, 1, 0, 0], [0, 0, 1, 0.14225], [0, 0, 0, 1.]])
G1 = np.diag([0.010267, 0.010267, 0.00666, 3.7, 3.7, 3.7]); G2 = np.diag([0.22689, 0.22689, 0.0151074, 8.393, 8.393, 8.393])
G3 = np.diag([0.0494433, 0.0494433, 0.004095, 2.275, 2.275, 2.275])
Glist = np.array([G1, G2, G3]); Mlist = np.array([M01, M12, M23, M34])
Slist = np.array([[1, 0, 1, 0, 1, 0], [0, 1, 0, -0.089, 0, 0], [0, 1, 0, -0.089, 0, 0.425]], dtype=float).T
if 'd1' in which:
    m = np.diag([1., 1., -1.]) + 1e-3
    want = ref.ProjectToSO3(m.copy())
    try:
        got = port.ProjectToSO3(m.copy())
        ok = np.allclose(got, want, atol=1e-9)
    except Exception as e:
        ok = False; print('D1 port raised', type(e).__name__, e)
    print('D1 ProjectToSO3 (det<0 branch):', 'PASS' if ok else 'FAIL'); bad += not ok
if 'd2' in which:
    taumat = np.array([[3.63, -6.58, -5.57], [3.74, -5.55, -5.5], [4.31, -0.68, -5.19]])
    Ftipmat = np.ones((3, 6))
    want = ref.ForwardDynamicsTrajectory(thetalist, dthetalist, taumat, g, Ftipmat, Mlist, Glist, Slist, 0.1, 8)
    try:
        got = port.ForwardDynamicsTrajectory(thetalist, dthetalist, taumat, g, Ftipmat, Mlist, Glist, Slist, 0.1, 8)
        ok = np.allclose(got[0], want[0], atol=1e-7) and np.allclose(got[1], want[1], atol=1e-7)
    except Exception as e:
        ok = False; print('D2 port raised', type(e).__name__, str(e)[:80])
    print('D2 ForwardDynamicsTrajectory:', 'PASS' if ok else 'FAIL'); bad += not ok
if 'd3' in which:
    N = 4; dt = 0.01
    traj = ref.JointTrajectory(thetalist, np.array([np.pi / 2] * 3), 0.03, N, 5)
    thetamatd = np.array(traj).copy(); dthetamatd = np.zeros((N, 3)); ddthetamatd = np.zeros((N, 3))
    for i in range(N - 1):
        dthetamatd[i + 1] = (thetamatd[i + 1] - thetamatd[i]) / dt
        ddthetamatd[i + 1] = (dthetamatd[i + 1] - dthetamatd[i]) / dt
    args = (thetalist, dthetalist, g, np.ones((N, 6)), Mlist, Glist, Slist, thetamatd, dthetamatd, ddthetamatd,
            np.array([0.8, 0.2, -8.8]), Mlist, Glist, 20, 10, 18, dt, 2)
    want = ref.SimulateControl(*args)
    try:
        got = port.SimulateControl(*args)
        ok = np.allclose(got[0], want[0], rtol=1e-7) and np.allclose(got[1], want[1], rtol=1e-7)
    except Exception as e:
        ok = False; print('D3 port raised', type(e).__name__, str(e)[:80])
    print('D3 SimulateControl:', 'PASS' if ok else 'FAIL'); bad += not ok
sys.exit(1 if bad else 0)
