"""The 6R test arm of tests/test_kinematics_arm.py (copied construction), for triage demos."""
import numpy as np
from basic_robotics.general import tm, fsr
from basic_robotics.kinematics import Arm


def make(base=None, masses6=True):
    Base_T = tm() if base is None else base
    L1, L2, L3, W = 4.5, 3.75, 3.75, 0.1
    Tspace = [tm(np.array([[0], [0], [L1 / 2], [0], [0], [0]])), tm(np.array([[L2 / 2], [0], [L1], [0], [0], [0]])),
              tm(np.array([[L2 + (L3 / 2)], [0], [L1], [0], [0], [0]])), tm(np.array([[L2 + L3 + (W / 2)], [0], [L1], [0], [0], [0]])),
              tm(np.array([[L2 + L3 + W + (W / 2)], [0], [L1], [0], [0], [0]])), tm(np.array([[L2 + L3 + W + W + (W / 2)], [0], [L1], [0], [0], [0]]))]
    ee_home = fsr.TAAtoTM(np.array([[L2 + L3 + W + W + W], [0], [L1], [0], [0], [0]]))
    axes = np.array([[0, 0, 1], [0, 1, 0], [0, 1, 0], [1, 0, 0], [0, 1, 0], [1, 0, 0]]).conj().T
    homes = np.array([[0, 0, 0], [0, 0, L1], [L2, 0, L1], [L2 + L3, 0, L1], [L2 + L3 + W, 0, L1], [L2 + L3 + 2 * W, 0, L1]]).conj().T
    S = np.zeros((6, 6))
    for i in range(6):
        S[0:6, i] = np.hstack((axes[0:3, i], np.cross(homes[0:3, i], axes[0:3, i])))
    dims = np.array([[W, W, L1], [L2, W, W], [L3, W, W], [W, W, W], [W, W, W], [W, W, W]]).conj().T
    lmt = [None] * 7
    lmt[0] = Tspace[0]
    for i in range(1, 6):
        lmt[i] = Tspace[i - 1].inv() @ Tspace[i]
    lmt[6] = Tspace[5].inv() @ ee_home
    masses = np.array([20, 20, 20, 1, 1, 1])
    G = np.zeros((6, 6, 6))
    for i in range(6):
        G[i, :, :] = fsr.boxSpatialInertia(masses[i], dims[0, i], dims[1, i], dims[2, i])
    arm = Arm(Base_T, S.copy(), tm(ee_home), homes, axes)
    arm.setJointProperties(np.array([np.pi] * 6) * -2, np.array([np.pi] * 6) * 2)
    arm.setOrigins(link_homes_global=Tspace)
    arm.setMassProperties(masses, lmt, G)
    arm.setVisColProperties(link_dimensions=dims)
    arm._test_S = S
    arm._test_ee_home = tm(ee_home)
    arm._test_homes = homes
    arm._test_axes = axes
    return arm
