"""D27 (C05 R05.10; also breaks C06's link-mass clause): for an arm whose tool frame is coincident with its last joint,
setArbitraryHome(...) followed by restoreOriginalEE() puts the tool back where it was, but the tool->last-joint transform computed
for the temporary tool is kept (the helper only ever SETS it), so getJointTransforms() reports a spurious extra frame and the
link-mass statics read the wrong frames.  Triage script, not part of any check."""
import sys
import numpy as np
from basic_robotics.general import tm, fsr, Wrench
from basic_robotics.kinematics import Arm

L1, L2, L3, W = 4.5, 3.75, 3.75, 0.1
axes = np.array([[0, 0, 1], [0, 1, 0], [0, 1, 0], [1, 0, 0], [0, 1, 0], [1, 0, 0]]).T
homes = np.array([[0, 0, 0], [0, 0, L1], [L2, 0, L1], [L2 + L3, 0, L1], [L2 + L3 + W, 0, L1], [L2 + L3 + 2 * W, 0, L1]]).T
S = np.zeros((6, 6))
for i in range(6):
    S[0:6, i] = np.hstack((axes[0:3, i], np.cross(homes[0:3, i], axes[0:3, i])))
ee_home = tm([L2 + L3 + 2 * W, 0, L1, 0, 0, 0])          # tool frame AT the last joint


def build():
    a = Arm(tm(), S.copy(), ee_home.copy(), homes, axes)
    a.setJointProperties(np.array([np.pi] * 6) * -2, np.array([np.pi] * 6) * 2)
    return a


arm = build()
th = np.array([0.3, -0.4, 0.5, 0.2, -0.6, 0.1])
arm.FK(th)
before = [p.gTM().copy() for p in arm.getJointTransforms()]
arm.setArbitraryHome(arm.getEEPos() @ tm([0.1, 0.05, 0.2, 0, 0, 0]))
arm.restoreOriginalEE()
arm.FK(th)
after = [p.gTM().copy() for p in arm.getJointTransforms()]
fresh = build()
fresh.FK(th)
ref = [p.gTM().copy() for p in fresh.getJointTransforms()]
bad = 0
if not (len(before) == len(ref) and all(np.allclose(a, b, atol=1e-9) for a, b in zip(before, ref))):
    bad += 1
    print('fixture problem: the arm before the tool change differs from a fresh arm')
if len(after) != len(ref):
    bad += 1
    print('getJointTransforms() lists %d frames on a fresh arm and %d after setArbitraryHome + restoreOriginalEE' % (len(ref), len(after)))
else:
    for k, (a, b) in enumerate(zip(after, ref)):
        if not np.allclose(a, b, atol=1e-9):
            bad += 1
            print('frame %d differs from the fresh arm by %.3g' % (k, abs(a - b).max()))
if not np.allclose(arm.getEEPos().gTM(), fresh.getEEPos().gTM(), atol=1e-9):
    bad += 1
    print('tool pose differs')
print('D27: %d discrepancies' % bad)
sys.exit(1 if bad else 0)
