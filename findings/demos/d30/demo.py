"""D30 (C11 R11.8): loadSP with AssignMasses=1 and InferActuatorCOG=0 overwrote the SHAFT MASS read from the definition with the inferred
centre-of-gravity distance ((min+max extension)/8) and left the shaft centre of gravity at 0: carryMassCalc then loads the legs with a
shaft weight that is not the definition's, at the top joints instead of at the shafts' centres of gravity.
Exits 1 when the defect is present.  Triage script, not part of any check."""
import ast
import json
import os
import sys
import tempfile

repo = next(r for r in (os.environ.get('BR_REPO', ''), '/repo', os.getcwd()) if r and os.path.exists(os.path.join(r, 'tests', 'test_kinematics_sp.py')))
sys.path.insert(0, repo)
from basic_robotics.kinematics import loadSP     # noqa: E402

tree = ast.parse(open(os.path.join(repo, 'tests', 'test_kinematics_sp.py')).read())
d = next(ast.literal_eval(n.value) for n in ast.walk(tree)
         if isinstance(n, ast.Assign) and isinstance(n.targets[0], ast.Name) and n.targets[0].id == 'basic_sp')
d['Settings']['AssignMasses'] = 1
d['Settings']['InferActuatorCOG'] = 0
d['Actuators']['ShaftMass'] = 7.5
tmp = tempfile.mkdtemp()
json.dump(d, open(os.path.join(tmp, 'd30.json'), 'w'))
sp = loadSP('d30.json', tmp + os.sep)
inferred = (d['Actuators']['MinExtension'] + d['Actuators']['MaxExtension']) / 8
print('ShaftMass in the definition: %s ; platform shaft mass: %s ; shaft COG: %s ; motor COG: %s ; inferred COG: %s'
      % (d['Actuators']['ShaftMass'], sp._act_shaft_mass, sp._act_shaft_grav_center, sp._act_motor_grav_center, inferred))
if sp._act_shaft_mass != d['Actuators']['ShaftMass'] or sp._act_shaft_grav_center != inferred:
    print('FAIL: the shaft mass of the definition is replaced by a length / the shaft centre of gravity is not set')
    sys.exit(1)
print('ok')
