"""D26 (C20 R20.5): disp(<2-D bool array>, mode=1) raised TypeError before the fix (triage script, not part of any check)."""
import sys
import numpy as np
from basic_robotics.utilities.disp import disp

bad = 0
for a in (np.array([[True, False], [False, True]]), np.array([[1, 2], [3, 4]]), np.array([[1.5, np.nan], [np.inf, -2.25]])):
    for nd in (0, 1, 3):
        try:
            s = disp(a, 'T', nd=nd, mode=1, noprint=True)
            assert isinstance(s, str) and '\\begin{table}' in s
        except Exception as e:  # noqa
            bad += 1
            print('disp raised %s for dtype %s nd=%d: %s' % (type(e).__name__, a.dtype, nd, e))
print('D26: %d failures' % bad)
sys.exit(1 if bad else 0)
