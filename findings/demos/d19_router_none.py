"""Triage demo for D19 (C19): a receive that yields no data must deliver nothing.
Run: cd /repo && /venv/bin/python /verif/findings/demos/d19_router_none.py  (exit 0 = property holds)"""
import sys
from basic_robotics.interfaces.comms_core import Comms
from basic_robotics.interfaces.comms_object import CommsObject


class Ep(CommsObject):
    def __init__(self, name, rx):
        super().__init__(name)
        self.rx, self.sent = list(rx), []

    def getData(self):
        return self.rx.pop(0) if self.rx else None

    def sendData(self, d):
        self.sent.append(d)
        return True


hub = Comms()
a, b = Ep('a', []), Ep('b', [])
hub.endpoints['a'], hub.endpoints['b'] = a, b
got = []
assert hub.setForwardData('a', 'b') and hub.setDataSink('a', got.append)
r = hub.getData('a')          # time-out on a
print('returned', r, 'forwarded', b.sent, 'sink got', got)
ok = r is None and b.sent == [] and got == []
print('PASS' if ok else 'FAIL: an empty receive was fanned out')
sys.exit(0 if ok else 1)
