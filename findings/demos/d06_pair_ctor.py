"""Triage demo for D6 (C04): the nested [position, rotation] pair form must mean the same pose as the 6-list form."""
import sys
import numpy as np
from basic_robotics.general import tm
a = tm([[1, 2, 3], [0.1, 0.2, 0.3]]); b = tm([1, 2, 3, 0.1, 0.2, 0.3])
ok = np.allclose(a.gTM(), b.gTM(), atol=1e-12)
print('pair form rotation', a.gTAA()[3:6, 0], 'vs list form', b.gTAA()[3:6, 0], '->', 'PASS' if ok else 'FAIL')
sys.exit(0 if ok else 1)
