"""Triage demo for D14 (C07): a reported IK success must meet the arm's orientation AND position tolerances.
The arm is placed so that its tool sits at the world origin; the start differs from the solution by a pure
rotation of the last joint (1e-4 rad) - larger than the orientation tolerance (1e-5), with zero position error.
Run from /repo (exit 0 = holds)."""
import os, sys
sys.path.insert(0, os.path.dirname(__file__))
import numpy as np
import arm6r
from basic_robotics.general import tm, fmr

bad = 0
for protect in (True, False):
    a = arm6r.make(base=tm([-7.8, 0, -4.5, 0, 0, 0]))
    a.rot_tolerance = 1e-5
    a.pos_tolerance = 1e-2
    goal = a.FK(np.zeros(6)).copy()
    start = np.array([0, 0, 0, 0, 0, 1e-4])
    a.FK(start.copy())
    theta, success = a.IK(goal, start.copy(), check=False, protect=protect)
    T = fmr.FKinSpace(a._end_effector_home.gTM(), a.screw_list, np.array(theta, dtype=float))
    V = fmr.Adjoint(T) @ fmr.se3ToVec(fmr.MatrixLog6(fmr.TransInv(T) @ goal.gTM()))
    ang, lin = np.linalg.norm(V[0:3]), np.linalg.norm(V[3:6])
    ok = (not success) or (ang <= a.rot_tolerance and lin <= a.pos_tolerance)
    print('protect=%s: success=%s orientation error %.2e (tolerance %.0e), position error %.2e (tolerance %.0e) -> %s'
          % (protect, success, ang, a.rot_tolerance, lin, a.pos_tolerance, 'ok' if ok else 'VIOLATES'))
    bad += not ok
print('PASS' if not bad else 'FAIL')
sys.exit(1 if bad else 0)
