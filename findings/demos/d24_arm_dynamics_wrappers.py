"""Triage demo for D24 (C08): Arm.forwardDynamics / inverseDynamicsEMR must work with their documented defaults
(a Wrench tip load) and agree with the arm's own inverse dynamics.  Run from /repo (exit 0 = holds)."""
import os, sys
sys.path.insert(0, os.path.dirname(__file__))
import numpy as np
import arm6r
from basic_robotics.general import Wrench

a = arm6r.make()
q = np.array([0.1, -0.2, 0.3, 0.2, -0.1, 0.05]); qd = np.array([0.2, 0.1, -0.3, 0.1, 0.2, -0.1]); qdd = np.array([0.5, -0.4, 0.3, 0.2, -0.1, 0.3])
bad = 0
try:
    tau = np.asarray(a.inverseDynamicsEMR(q.copy(), qd.copy(), qdd.copy())).flatten()
    tau2 = np.asarray(a.inverseDynamics(q.copy(), qd.copy(), qdd.copy())[0]).flatten()
    ok = np.allclose(tau, tau2, rtol=1e-8, atol=1e-8)
    print('inverseDynamicsEMR (default Wrench) vs inverseDynamics:', 'agree' if ok else 'DIFFER %s %s' % (tau, tau2))
    bad += not ok
except Exception as e:
    print('inverseDynamicsEMR raised', type(e).__name__, str(e)[:80]); bad += 1
try:
    tau = np.asarray(a.inverseDynamics(q.copy(), qd.copy(), qdd.copy())[0]).flatten()
    got = np.asarray(a.forwardDynamics(q.copy(), qd.copy(), tau.copy())).flatten()
    ok = np.allclose(got, qdd, rtol=1e-6, atol=1e-6)
    print('forwardDynamics(default Wrench) inverts inverseDynamics:', 'yes' if ok else 'NO %s' % got)
    bad += not ok
except Exception as e:
    print('forwardDynamics raised', type(e).__name__, str(e)[:80]); bad += 1
print('PASS' if not bad else 'FAIL')
sys.exit(1 if bad else 0)
