"""Triage demo for D15 (C17): with bounds checking on, Arm.FKLink must complete for every link index.
Run from /repo: NUMBA_BOUNDSCHECK=1 NUMBA_DISABLE_JIT=0 /venv/bin/python /verif/findings/demos/d15_fklink_bounds.py"""
import os, sys
os.environ['NUMBA_BOUNDSCHECK'] = '1'
os.environ['NUMBA_CACHE_DIR'] = '/tmp/numba_cache_boundscheck'
sys.path.insert(0, os.path.dirname(__file__))
import numpy as np
import arm6r
arm = arm6r.make()
th = np.array([0.3, -0.2, 0.5, 0.1, -0.4, 0.2])
bad = 0
for i in range(6):
    try:
        arm.FKLink(th.copy(), i)
    except IndexError as e:
        bad += 1
        print('link', i, 'IndexError:', str(e)[:60])
print('PASS' if not bad else 'FAIL: %d of 6 link indices read out of bounds' % bad)
sys.exit(1 if bad else 0)
