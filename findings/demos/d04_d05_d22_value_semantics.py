"""Triage demos for D4, D5, D22 (C14): value semantics.  Run from /repo (exit 0 = holds)."""
import sys
import numpy as np
from basic_robotics.general import tm, fsr, Screw, Wrench
which = sys.argv[1:] or ['d4', 'd5', 'd22a', 'd22b']
bad = 0
if 'd4' in which:
    s = Screw(); s[0] = 5.0
    ok = float(Screw().data[0, 0]) == 0.0
    print('D4 default-constructed Screw is zero after mutating an earlier default instance:', 'PASS' if ok else 'FAIL (%s)' % Screw().data[0, 0]); bad += not ok
if 'd5' in which:
    t = tm([1, 2, 3, 0.1, 0.2, 0.3]); p = t.gPos(); p[0] = 99
    ok = t.gTAA()[0, 0] == 1.0
    print('D5 changing the array returned by gPos() leaves the transform alone:', 'PASS' if ok else 'FAIL (TAA[0]=%s, TM[0,3]=%s)' % (t.gTAA()[0, 0], t.gTM()[0, 3])); bad += not ok
if 'd22a' in which:
    a = tm([0, 0, 0, 0, 0, 0]); r1 = tm([1, 0, 0, 0.1, 0.2, 0]); r2 = tm([0, 2, 1, 0, 0, 0]); before = r1.gTAA().copy()
    fsr.adjustRotationToMidpoint(a, r1, r2, mode=1)
    ok = np.array_equal(before, r1.gTAA())
    print('D22a adjustRotationToMidpoint(mode=1) leaves its reference operands alone:', 'PASS' if ok else 'FAIL'); bad += not ok
if 'd22b' in which:
    w = Wrench(np.array([0., 0., -10.]), tm([1, 0, 0, 0, 0, 0])); before = w.getData().copy()
    out = fsr.transformWrenchFrame(w, tm(), tm([0, 1, 0, 0, 0, 0.5]))
    ok = np.array_equal(before, w.getData()) and out is not w
    print('D22b transformWrenchFrame returns a new wrench and leaves its operand alone:', 'PASS' if ok else 'FAIL'); bad += not ok
sys.exit(1 if bad else 0)
