"""Triage demos for D11, D12, D13, D23 (C05/C06/C07/C14): arm state coherence over histories.
Run from /repo: /venv/bin/python /verif/findings/demos/d11_d12_d13_d23_arm_state.py [d11 d12 d13 d23]"""
import os, sys
sys.path.insert(0, os.path.dirname(__file__))
import numpy as np
import arm6r
from basic_robotics.general import tm, fmr
from basic_robotics.kinematics import Arm

which = sys.argv[1:] or ['d11', 'd12', 'd13', 'd23']
bad = 0


def close(a, b, tol=1e-7):
    return np.allclose(np.asarray(a), np.asarray(b), atol=tol)


th = np.array([0.3, -0.2, 0.5, 0.1, -0.4, 0.2])
if 'd11' in which:
    B1 = tm([1, 2, 3, 0.2, -0.3, 0.4]); B2 = tm([-2, 0.5, 1, 0.1, 0.6, -0.2])
    ref = arm6r.make()
    S = ref._test_S.copy(); S0 = S.copy()
    a1 = Arm(B1, S, ref._test_ee_home.copy(), ref._test_homes, ref._test_axes)
    mutated = not np.array_equal(S, S0)
    a1.move(B2)
    a2 = Arm(B2, S0.copy(), ref._test_ee_home.copy(), ref._test_homes, ref._test_axes)
    same = close(a1.FK(th.copy()).gTM(), a2.FK(th.copy()).gTM())
    ok = same and not mutated
    print('D11 ctor leaves the screw array alone: %s; built at B1 then move(B2) == built at B2: %s -> %s' % (not mutated, same, 'PASS' if ok else 'FAIL'))
    bad += not ok
if 'd12' in which:
    a = arm6r.make()
    a.FK(th.copy())
    a.setArbitraryHome(a.getEEPos() @ tm([0.1, 0.05, 0.2, 0.1, 0.2, -0.1]))
    ok1 = close(a.getEEPos().gTM(), a.FK(a._theta.copy()).gTM())
    a.FK(th.copy())
    Jb = a.jacobianBody(th.copy()); Js = a.jacobian(th.copy())
    ok2 = close(Jb, fmr.Adjoint(a.FK(th.copy()).inv().gTM()) @ Js, 1e-6)
    a.restoreOriginalEE()
    ok3 = close(a.getEEPos().gTM(), a.FK(a._theta.copy()).gTM())
    Jb = a.jacobianBody(th.copy()); Js = a.jacobian(th.copy())
    ok4 = close(Jb, fmr.Adjoint(a.FK(th.copy()).inv().gTM()) @ Js, 1e-6)
    ok = ok1 and ok2 and ok3 and ok4
    print('D12 after tool change: pose==FK(theta) %s, Jb==Ad(inv T)Js %s; after restore: %s, %s -> %s' % (ok1, ok2, ok3, ok4, 'PASS' if ok else 'FAIL'))
    bad += not ok
if 'd13' in which:
    a = arm6r.make()
    a.FK(th.copy())
    far = tm([100, 0, 0, 0, 0, 0])
    theta, success = a.IK(far, protect=True, check=False)
    ok = (not success) and close(a.getEEPos().gTM(), tm(fmr.FKinSpace(a._end_effector_home.gTM(), a.screw_list, a._theta.copy())).gTM())
    print('D13 unreachable goal (protect=True): success=%s, reported pose == FK(stored joints): %s -> %s' % (success, ok, 'PASS' if ok else 'FAIL'))
    bad += not ok
if 'd23' in which:
    a = arm6r.make()
    want = a.FK(th.copy()).gTM().copy()
    a.jacobianEETrans()
    ok = close(a.getEEPos().gTM(), want)
    print('D23 FK(theta); jacobianEETrans(); getEEPos()==FK(theta): %s -> %s' % (ok, 'PASS' if ok else 'FAIL'))
    bad += not ok
sys.exit(1 if bad else 0)
