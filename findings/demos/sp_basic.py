"""The basic Stewart platform of tests/test_kinematics_sp.py (same parameters, built through newSP)."""
from basic_robotics.general import tm
from basic_robotics.kinematics.sp_model import newSP


def make(base=None, all_validation=True):
    sp = newSP(0.9, 0.3, 9, 25, 0.1, 0.16, 0.9, 0.5, 1, 6, 0.2, 0.2, 0.75, 1.5, tm() if base is None else base, 'Basic SP', 1)
    sp.setMaxAngleDev(55)
    if all_validation:
        sp.validation_settings = [1, 1, 1, 1]
    return sp
