"""Triage demos for D16, D17, D18 (C09/C10): Stewart platform state coherence over histories.
Run from /repo: /venv/bin/python /verif/findings/demos/d16_d17_d18_sp_state.py [d16 d17 d18]"""
import os, sys
sys.path.insert(0, os.path.dirname(__file__))
import numpy as np
import sp_basic
from basic_robotics.general import tm, fsr

which = sys.argv[1:] or ['d16', 'd17', 'd18']
bad = 0


def coherent(sp, tol=1e-9):
    """joint positions = plate pose applied to plate-fixed joints; lengths = distances; relative = inv(bottom)*top"""
    B, T = sp.getBottomT().gTM(), sp.getTopT().gTM()
    bj = (B @ np.vstack((sp._bottom_joints_local, np.ones((1, 6)))))[0:3]
    tj = (T @ np.vstack((sp._top_joints_local, np.ones((1, 6)))))[0:3]
    e1 = np.abs(bj - sp.getBottomJoints()).max(); e2 = np.abs(tj - sp.getTopJoints()).max()
    e3 = np.abs(np.linalg.norm(sp.getTopJoints() - sp.getBottomJoints(), axis=0) - sp.getLens().flatten()).max()
    e4 = np.abs(np.linalg.inv(B) @ T - sp.getCurrentLocalTransform().gTM()).max()
    return max(e1, e2, e3, e4), (e1, e2, e3, e4)


if 'd16' in which:
    sp = sp_basic.make()
    sp.spinCustom(0.4)
    goal = tm([0.05, -0.04, 1.15, 0.05, -0.03, 0.08])
    L, valid = sp.IK(top_plate_pos=goal)
    top, v2 = sp.FK(L.copy())
    err = np.abs(top.gTM() - goal.gTM()).max()
    lerr = np.abs(sp.getLens().flatten() - L.flatten()).max()
    ok = err < 1e-3 and lerr < 1e-3
    print('D16 after spinCustom(0.4): FK(IK(pose)) pose error %.2e, reported-vs-requested length error %.2e -> %s' % (err, lerr, 'PASS' if ok else 'FAIL'))
    bad += not ok
if 'd17' in which:
    sp = sp_basic.make(all_validation=False)
    L, _ = sp.IK(top_plate_pos=tm([0.0, 0.1, -0.9, 0, np.pi / 8, 0]), protect=True)
    top, valid = sp.FK(L.flatten().copy(), fk_mode=0)
    worst, parts = coherent(sp, 1e-6)
    ok = (worst < 1e-6) or not valid
    print('D17 FK (fsolve mode) of an inverted request: valid=%s, incoherence %.2e (joints b %.1e, t %.1e, lengths %.1e, relative %.1e) -> %s'
          % (valid, worst, parts[0], parts[1], parts[2], parts[3], 'PASS' if ok else 'FAIL'))
    bad += not ok
if 'd18' in which:
    sp = sp_basic.make()
    try:
        sys.setrecursionlimit(400)
        sp.FK(np.array([0.875, 1.365, 0.789, 1.594, 1.122, 0.879]), fk_mode=0)
        sp.IK(top_plate_pos=tm([0.034, 0.1, 1.337, 0.147, 0.414, 0.379]))
        sp.FK(np.array([1.599, 1.649, 1.53, 0.621, 0.843, 1.628]), fk_mode=0)
        sp.FK(np.array([1.033, 1.04, 0.718, 0.866, 0.963, 1.556]), fk_mode=0)
        ok = True
    except RecursionError:
        ok = False
    print('D18 out-of-range FK / IK history returns normally:', 'PASS' if ok else 'FAIL (RecursionError: _FKRaphson <-> _FKSolve)')
    bad += not ok
sys.exit(1 if bad else 0)
