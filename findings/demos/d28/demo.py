"""D28 (C20 R20.6): disp of a LIST of transforms / wrenches raised OverflowError when an entry was infinite, although a single such
transform, and numeric arrays with inf entries, are rendered: printTFlist converted the entry with round() under the |x| >= 9999 guard
only (true for inf), without dispa's isinf branch.  Exits 1 when the defect is present.  Triage script, not part of any check."""
import sys
import numpy as np
from basic_robotics.general import tm, Wrench
from basic_robotics.utilities.disp import disp

bad = 0
for label, lst in (('transforms', [tm(), tm([np.inf, 0, 0, 0, 0, 0])]),
                   ('wrenches', [Wrench(np.array([-np.inf, 0, 0, 0, 0, 0.])), Wrench(np.zeros(6))])):
    try:
        s = disp(lst, noprint=True)
        print('ok   list of %s with an infinite entry ->' % label, repr(s.splitlines()[2])[:60])
    except Exception as e:  # noqa
        bad += 1
        print('FAIL list of %s with an infinite entry raises %s: %s' % (label, type(e).__name__, e))
sys.exit(1 if bad else 0)
