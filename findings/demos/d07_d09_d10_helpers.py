"""Triage demos for D7, D9, D10 (C18).  Run from /repo (exit 0 = holds)."""
import sys
import numpy as np
from basic_robotics.general import tm, fsr, fmr
which = sys.argv[1:] or ['d7', 'd9', 'd10']
bad = 0
if 'd7' in which:
    t = tm([0, 0, 0, 10.0, 0, 0]); before = t.gTM().copy(); t.angleMod()
    ok = np.allclose(before, t.gTM(), atol=1e-9) and abs(((t.gTAA()[3, 0] - 10.0) / (2 * np.pi)) - round((t.gTAA()[3, 0] - 10.0) / (2 * np.pi))) < 1e-9
    print('D7 tm.angleMod keeps the rotation (angle mod 2*pi):', 'PASS' if ok else 'FAIL (10 rad -> %.4f rad, matrix changed by %.3f)' % (t.gTAA()[3, 0], np.abs(before - t.gTM()).max())); bad += not ok
if 'd9' in which:
    plane = tm([0, 0, 2, 0, 0, 0]); p = tm([1, 2, 5, 0, 0, 0])
    m = fsr.mirror(plane, p)
    ok = np.allclose(m.gTAA()[0:3, 0], [1, 2, -1], atol=1e-9)
    # tilted plane not through the origin: involution and fixed points
    pl2 = tm([0.3, -0.2, 1.5, 0.4, -0.3, 0.2]); q = tm([0.7, 0.1, -0.4, 0, 0, 0])
    mm = fsr.mirror(pl2, fsr.mirror(pl2, q))
    ok2 = np.allclose(mm.gTAA()[0:3, 0], q.gTAA()[0:3, 0], atol=1e-9)
    onplane = pl2 @ tm([0.5, -0.8, 0, 0, 0, 0]); fx = fsr.mirror(pl2, onplane)
    ok3 = np.allclose(fx.gTAA()[0:3, 0], onplane.gTAA()[0:3, 0], atol=1e-9)
    print('D9 mirror of z=5 across the plane z=2 is z=-1: %s (got z=%.3f); involution: %s; plane points fixed: %s -> %s'
          % (ok, m.gTAA()[2, 0], ok2, ok3, 'PASS' if ok and ok2 and ok3 else 'FAIL')); bad += not (ok and ok2 and ok3)
if 'd10' in which:
    a = tm([0, 0, 0, 0, 0, 0.0]); b = tm([0, 0, 0, 0, 0, 1.0])
    mid = fsr.tmInterpMidpoint(a, b)
    ok = abs(mid.gTAA()[5, 0] - 0.5) < 1e-9
    print('D10 midpoint of Rz(0) and Rz(1) is Rz(0.5):', 'PASS' if ok else 'FAIL (got %.4f rad)' % mid.gTAA()[5, 0]); bad += not ok
sys.exit(1 if bad else 0)
